#!/bin/bash
# Offline setup: put icontract + deal beside the repository's interpreter (/venv) in /verif/.deps
# (git-ignored), then smoke-test that the repository imports from its working tree.
set -e
cd "$(dirname "$0")"
if ! PYTHONPATH="$PWD/.deps" /venv/bin/python -c "import icontract, deal" 2>/dev/null; then
  PIP_NO_INDEX=1 /venv/bin/pip install --quiet --no-index --find-links /opt/veriftools/wheels \
      --target "$PWD/.deps" icontract deal >/dev/null 2>&1 || \
  PIP_NO_INDEX=1 /venv/bin/pip install --no-index --find-links /opt/veriftools/wheels \
      --target "$PWD/.deps" icontract deal
fi
PYTHONWARNINGS=ignore /venv/bin/python -c "
import sys; sys.path.insert(0, '$PWD')
from rv import env
ssj = env.load()
import icontract
print('setup ok: py_stringsimjoin', ssj.__version__, 'from', ssj.__file__, 'icontract', icontract.__version__)
"
