#!/venv/bin/python
"""Regenerates /verif/MANIFEST.json from the table below (kept valid at all times)."""
import json
import os

VERIF = os.path.dirname(os.path.dirname(os.path.abspath(__file__)))

COMMON_NOTE = ('trusted base: CPython, pandas, numpy, joblib, the py_stringmatching tokenizers and '
               'similarity functions (dependencies, not the code under test), and the reference model '
               'in rv/model.py + rv/oracle.py; held on the executions explored, not a proof')

CHECKS = {
    'C01': ('real join executions judged for completeness by an independent reference model: W1 '
            'constructed worst-case tables (least qualifying overlap, shared tokens last in the global '
            'order) for every size pair up to N per (measure, threshold), W2 every token arrangement '
            'of small sets at every separating threshold, W3 random hostile tables, contract-steered '
            'witnesses for sizes up to 1000',
            'boundary reference-model oracle over constructed worst-case + exhaustive-small + random executions; icontract contracts on the bound formulas steer witnesses'),
    'C02': ('every output row of real join executions judged for soundness, uniqueness, key existence '
            'and exact score by the reference model, on random tables (all projections, NaN rows, '
            'n_jobs), near-miss tables (one token short of qualifying for every size pair) and all '
            'small arrangements with all three operators',
            'boundary reference-model oracle on every output row (soundness / once / score)'),
    'C03': ('real edit_distance_join executions judged by an own Levenshtein DP: exhaustive string '
            'universes over small alphabets on both sides for every (q, padding, set/bag mode, '
            'threshold, operator), seeded mutation neighbourhoods in random table contexts, 1x1 '
            'tables; completeness demanded exactly for pairs whose q-gram bags intersect',
            'boundary oracle (own Levenshtein + fresh q-gram bags) over exhaustive small universes and mutation neighbourhoods'),
    'C04': ('SizeFilter/PrefixFilter/PositionFilter/SuffixFilter under all five measures and '
            'OverlapFilter driven through filter_pair, filter_tables and filter_candset on tight '
            'tables (every size pair, least qualifying overlap), overlap-size tables, exhaustive '
            'string universes for EDIT_DISTANCE, all small arrangements and random tables; every '
            'model-required pair must survive. SuffixFilter drops are an open known finding, '
            'attributed only when a pinned copy of its estimate rejects the same inputs',
            'boundary reference-model oracle on the three filter entry points; mechanism classifier for the known SuffixFilter finding'),
    'C05': ('real apply_matcher executions replayed row by row with the same similarity function on '
            'freshly tokenised values: identical row sequence, _id, keys, projection and score for '
            'all six operators, thresholds on attained scores, missing values, cached and uncached '
            'token paths (forced by padding), n_jobs 1..64 and -1, threading and loky backends',
            'boundary replay oracle (row-by-row reference evaluation) + metamorphic cache/n_jobs variants; call counter proves both cache paths ran'),
    'C06': ('filter_candset output compared with the positional selection computed from the same '
            'filter object\'s filter_pair for all five filters, all measures, random candidate sets, '
            'n_jobs and backends; OverlapFilter filter_pair/filter_tables compared with the model '
            'overlap for sizes 1..5 and operators >=,>,=, including every subset pair of a small '
            'vocabulary',
            'two-path consistency monitor (filter_candset vs filter_pair) + independent exact overlap oracle, exhaustive small vocabulary'),
}

NOT_YET = 'check not yet built in this session'


def main():
    props = [json.loads(l) for l in open(os.path.join(VERIF, 'properties.jsonl'))]
    m = {
        'version': 1,
        'setup_cmd': './setup.sh',
        'hooks': {
            'guard': 'RV_MONITORS',
            'enable': ('no source hooks: monitors are attached from the harness by rebinding module '
                       'globals after importing the working tree (RV_MONITORS=1 is exported to every '
                       'shard); the documented switch py_stringsimjoin.__use_cython__=False selects '
                       'the Python implementations (no Cython toolchain exists in the sandbox)'),
            'baseline_off_cmd': '/verif/tools/baseline.sh /repo',
            'source_commits': [],
            'add_only': True,
        },
        'engines': [{'name': 'rv', 'path': 'rv/', 'serves_properties': sorted(CHECKS),
                     'kind_free_text': 'runtime monitoring harness: workload generators, monitors '
                                       '(contracts, tokenizer/dispatch traces, sys.monitoring reach), '
                                       'reference-model oracles, sharded runner'}],
        'checks': [],
        'not_applicable': [],
        'notes': ('Technique family: runtime monitoring. Compiler sanitizers / race detectors have '
                  'nothing of the repository to instrument (pure Python at run time), see DESIGN.md §0. '
                  'Exit codes: 0 held, 1 violated (VIOLATION line), 2 inconclusive. Known findings: '
                  'KNOWN_FINDINGS.txt.'),
    }
    for p in props:
        pid = p['id']
        if pid in CHECKS:
            text, tech = CHECKS[pid]
            m['checks'].append({
                'property_id': pid,
                'quick_cmd': './check %s --tier quick' % pid,
                'thorough_cmd': './check %s --tier thorough' % pid,
                'evidence_file': 'evidence/%s.json' % pid,
                'replay_cmd_template': './check %s --replay {path}' % pid,
                'engine': 'rv',
                'level_claimed': {'category': 'exploration', 'text': text,
                                  'design_ref': 'DESIGN.md §3 ' + pid},
                'level_note': COMMON_NOTE,
                'technique': 'runtime monitoring: ' + tech,
            })
        else:
            m['not_applicable'].append({'property_id': pid, 'reason': NOT_YET})
    with open(os.path.join(VERIF, 'MANIFEST.json'), 'w') as f:
        json.dump(m, f, indent=1)
    print('MANIFEST.json: %d checks, %d not_applicable' % (len(m['checks']), len(m['not_applicable'])))


if __name__ == '__main__':
    main()
