#!/venv/bin/python
"""Regenerates /verif/MANIFEST.json from the table below (kept valid at all times)."""
import json
import os

VERIF = os.path.dirname(os.path.dirname(os.path.abspath(__file__)))

COMMON_NOTE = ('trusted base: CPython, pandas, numpy, joblib, the py_stringmatching tokenizers and '
               'similarity functions (dependencies, not the code under test), and the reference model '
               'in rv/model.py + rv/oracle.py; held on the executions explored, not a proof')

CHECKS = {
    'C01': ('real join executions judged for completeness by an independent reference model: W1 '
            'constructed worst-case tables (least qualifying overlap, shared tokens last in the global '
            'order) for every size pair up to N per (measure, threshold), W2 every token arrangement '
            'of small sets at every separating threshold, W3 random hostile tables, W4 thresholds that are '
            'the exact score of sets up to 64 tokens, records of up to 140 000 tokens, planted tables of '
            '1100-9000 rows, records whose token ranks are congruent modulo 64..2048, ambiguous token sets, '
            'a shard under python -O, contract-steered witnesses for sizes up to 1000; a deterministic '
            'sample of the calls gets used-before frames, positional arguments and real worker processes',
            'boundary reference-model oracle over constructed worst-case + exhaustive-small + random executions; icontract contracts on the bound formulas steer witnesses'),
    'C02': ('every output row of real join executions judged for soundness, uniqueness, key existence '
            'and exact score by the reference model, on random tables (all projections, NaN rows, '
            'n_jobs), near-miss tables (one token short of qualifying for every size pair) and all '
            'small arrangements with all three operators, exact-score thresholds, rare-shared-token tables '
            'with and without the score column, planted large tables, uint64 keys (open finding F14 '
            'classified by mechanism), colliding output labels',
            'boundary reference-model oracle on every output row (soundness / once / score)'),
    'C03': ('real edit_distance_join executions judged by an own Levenshtein DP: exhaustive string '
            'universes over small alphabets on both sides for every (q, padding, set/bag mode, '
            'threshold, operator), seeded mutation neighbourhoods in random table contexts, 1x1 '
            'tables; completeness demanded exactly for pairs whose q-gram bags intersect',
            'boundary oracle (own Levenshtein + fresh q-gram bags) over exhaustive small universes and mutation neighbourhoods'),
    'C04': ('SizeFilter/PrefixFilter/PositionFilter/SuffixFilter under all five measures and '
            'OverlapFilter driven through filter_pair, filter_tables and filter_candset on tight '
            'tables (every size pair, least qualifying overlap), overlap-size tables, exhaustive '
            'string universes for EDIT_DISTANCE, all small arrangements and random tables; every '
            'model-required pair must survive. SuffixFilter drops are an open known finding, '
            'attributed only when a pinned copy of its estimate rejects the same inputs',
            'boundary reference-model oracle on the three filter entry points; mechanism classifier for the known SuffixFilter finding'),
    'C05': ('real apply_matcher executions replayed row by row with the same similarity function on '
            'freshly tokenised values: identical row sequence, _id, keys, projection and score for '
            'all six operators, thresholds on attained scores, missing values, cached and uncached '
            'token paths (forced by padding), n_jobs 1..64 and -1, threading, loky and multiprocessing '
            'backends; similarity functions incl. signed, NaN-returning, order-sensitive and slow user '
            'functions and configured measure objects; numeric / datetime match attributes; thresholds a '
            'few ulps next to attained scores, Fraction / Decimal thresholds; repeated ids and pairs',
            'boundary replay oracle (row-by-row reference evaluation) + metamorphic cache/n_jobs variants; call counter proves both cache paths ran'),
    'C06': ('filter_candset output compared with the positional selection computed from the same '
            'filter object\'s filter_pair for all five filters, all measures, random candidate sets, '
            'n_jobs and backends; OverlapFilter filter_pair/filter_tables compared with the model '
            'overlap for sizes 1..5 and operators >=,>,=, including every subset pair of a small '
            'vocabulary',
            'two-path consistency monitor (filter_candset vs filter_pair) + independent exact overlap oracle, exhaustive small vocabulary'),
    'C07': ('join result compared with apply_matcher(filter_tables(...)) for every measure, operator, '
            'first-stage filter (Size, Prefix, Position, Overlap>=1), independent n_jobs of both stages, '
            'random tables and the bundled person data; both-empty and straddling pairs excluded by the '
            'model; edit distance: containment plus equality on pairs sharing a q-gram',
            'three-path consistency monitor (join vs filter+matcher) with model-decided exclusions'),
    'C08': ('every entry point x every missing-value distribution (none, one side, both, all, single) '
            'run with allow_missing False and True: exclusion, exactly-once inclusion with NaN score, '
            'unchanged present part (metamorphic), normal return; contract on the missing-pair builder',
            'boundary oracle + metamorphic False/True comparison over an enumerated pattern matrix'),
    'C09': ('tables rich in values that tokenize to nothing driven through the four ratio joins, '
            'overlap_join and the four safe filters (pair/tables/candset) for both allow_empty values, '
            'thresholds incl. 1.0, all operators and n_jobs up to 20',
            'boundary oracle on both-empty / one-empty pairs decided by fresh tokenization'),
    'C10': ('every n_jobs in 1..R+3 and {-1,-2,-100,64} compared with n_jobs=1 for every entry point '
            '(threading backend with injected per-job delays, loky sample), presentation variants '
            '(row permutation, index relabelling, extra columns, repeated call), digests of a fixed '
            'case list across processes with four PYTHONHASHSEEDs, _id numbering, dispatch trace of '
            'the chunks handed to jobs, split_table driven exhaustively under its partition contract; tables '
            'of frequency ties and EVERY row order of small tables, SizeFilter count grids under n_jobs, '
            'planted tables of 1100-4100 rows, the multiprocessing backend with configured measure objects',
            'metamorphic schedule/presentation monitors + joblib dispatch trace + exhaustive split_table contract'),
    'C11': ('columns compared with an independent implementation of the documented rule and every '
            'projected cell compared with the source row found through the key, for all joins and '
            'filter_tables, shuffled column order, all dtypes, all out-attr shapes, prefixes, and rows '
            'of the normal / empty-set / missing-value branches (each forced non-empty)',
            'boundary oracle on columns and projected cells per producing branch'),
    'C12': ('histories of 6-16 calls over shared DataFrames and shared tokenizers (incl. the default '
            'tokenizer object of edit_distance_join, re-classed to a traced tokenizer): deep input '
            'snapshots around every call, tokenizer configuration compared on normal return with flag '
            'flips counted, every result compared with the same call in isolation on fresh objects; process-'
            'wide state (pandas options, numpy, RNGs, cwd, environment) and the library''s module-level '
            'state compared around every call, fresh-process re-execution once module state changed; used '
            'filter objects compared with fresh ones',
            'history monitor: deep snapshots + tokenizer trace + global / module state monitors + isolated and fresh-process re-execution'),
    'C13': ('transposition, threshold refinement and operator partition checked on random tables, edit '
            'distance neighbourhoods, the bundled person data and samples of the bundled books data '
            '(thorough: 3500-row Zipf tables), exact-score, rare-shared-token (with and without the score '
            'column), structured-rank, ambiguous-token and ubiquitous-token (> 2**14 rows) tables; '
            'straddling / both-empty pairs excluded lazily by the model',
            'metamorphic relations between related real executions'),
    'C14': ('exhaustive size characterisation (every count pair <= N at every grid threshold for '
            'JACCARD/COSINE/DICE; every string-length pair for EDIT_DISTANCE x k x q x padding) through '
            'filter_tables and filter_pair with two different token assignments; no-common-token and '
            'Position ⊆ Prefix, Size refinement on random tables for all measures and on containment pairs a '
            'relative 1e-6..1e-4 next to the size boundary',
            'exhaustive grid oracle for SizeFilter + boundary oracles for no-common-token and refinement'),
    'C15': ('the complete rejection matrix (entry point x applicable invalid argument kind) with random '
            'valid contexts: documented exception class, no tokenize() before rejection (traced '
            'tokenizer), arguments and tokenizer configuration unchanged; acceptance of every entry '
            'point on 25 degenerate shape combinations x dtype x allow_missing x n_jobs, numpy-typed, float '
            'and boundary thresholds; one rejection shard under python -O; open finding F15 (flagged frame '
            'whose key is its join attribute) classified by mechanism',
            'enumerated rejection/acceptance matrix with tokenizer trace and argument snapshots'),
    'C16': ('series_to_str / dataframe_column_to_str compared with a reference conversion for every '
            '(column kind, NaN pattern, inplace, return_col) combination with input snapshots; the '
            'in-place conversion of a bare numeric Series under pandas 3 is an open known finding',
            'boundary reference-conversion oracle over an enumerated combination matrix'),
    'C17': ('profile rows compared with independent counts, parsed percentages and comment rules on '
            'small mixed-dtype tables (nullable, categorical, tz-aware, distinct NaN objects, sorted ids with '
            'a repeated and a skipped id, unusual column labels) and on 20 001..200 000-row tables with '
            'exactly one duplicate and/or one or two missing values (the rounding regime)',
            'boundary oracle with independent counts incl. the >20000-row rounding regime'),
}

NOT_YET = 'check not yet built in this session'


def main():
    props = [json.loads(l) for l in open(os.path.join(VERIF, 'properties.jsonl'))]
    m = {
        'version': 1,
        'setup_cmd': './setup.sh',
        'hooks': {
            'guard': 'RV_MONITORS',
            'enable': ('no source hooks: monitors are attached from the harness by rebinding module '
                       'globals after importing the working tree (RV_MONITORS=1 is exported to every '
                       'shard); the documented switch py_stringsimjoin.__use_cython__=False selects '
                       'the Python implementations (no Cython toolchain exists in the sandbox)'),
            'baseline_off_cmd': '/verif/tools/baseline.sh /repo',
            'source_commits': [],
            'add_only': True,
        },
        'engines': [{'name': 'rv', 'path': 'rv/', 'serves_properties': sorted(CHECKS),
                     'kind_free_text': 'runtime monitoring harness: workload generators, monitors '
                                       '(contracts, tokenizer/dispatch traces, sys.monitoring reach), '
                                       'reference-model oracles, sharded runner'}],
        'checks': [],
        'not_applicable': [],
        'notes': ('Technique family: runtime monitoring. Compiler sanitizers / race detectors have '
                  'nothing of the repository to instrument (pure Python at run time), see DESIGN.md §0. '
                  'Exit codes: 0 held, 1 violated (VIOLATION line), 2 inconclusive. Known findings: '
                  'KNOWN_FINDINGS.txt.'),
    }
    for p in props:
        pid = p['id']
        if pid in CHECKS:
            text, tech = CHECKS[pid]
            m['checks'].append({
                'property_id': pid,
                'quick_cmd': './check %s --tier quick' % pid,
                'thorough_cmd': './check %s --tier thorough' % pid,
                'evidence_file': 'evidence/%s.json' % pid,
                'replay_cmd_template': './check %s --replay {path}' % pid,
                'engine': 'rv',
                'level_claimed': {'category': 'exploration', 'text': text,
                                  'design_ref': 'DESIGN.md §3 ' + pid},
                'level_note': COMMON_NOTE,
                'technique': 'runtime monitoring: ' + tech,
            })
        else:
            m['not_applicable'].append({'property_id': pid, 'reason': NOT_YET})
    with open(os.path.join(VERIF, 'MANIFEST.json'), 'w') as f:
        json.dump(m, f, indent=1)
    print('MANIFEST.json: %d checks, %d not_applicable' % (len(m['checks']), len(m['not_applicable'])))


if __name__ == '__main__':
    main()
