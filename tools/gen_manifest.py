#!/venv/bin/python
"""Regenerates /verif/MANIFEST.json from the table below (kept valid at all times)."""
import json
import os

VERIF = os.path.dirname(os.path.dirname(os.path.abspath(__file__)))

COMMON_NOTE = ('trusted base: CPython, pandas, numpy, joblib, the py_stringmatching tokenizers and '
               'similarity functions (dependencies, not the code under test), and the reference model '
               'in rv/model.py + rv/oracle.py; held on the executions explored, not a proof')

CHECKS = {
    'C01': ('real join executions judged for completeness by an independent reference model: W1 '
            'constructed worst-case tables (least qualifying overlap, shared tokens last in the global '
            'order) for every size pair up to N per (measure, threshold), W2 every token arrangement '
            'of small sets at every separating threshold, W3 random hostile tables, contract-steered '
            'witnesses for sizes up to 1000',
            'boundary reference-model oracle over constructed worst-case + exhaustive-small + random executions; icontract contracts on the bound formulas steer witnesses'),
    'C02': ('every output row of real join executions judged for soundness, uniqueness, key existence '
            'and exact score by the reference model, on random tables (all projections, NaN rows, '
            'n_jobs), near-miss tables (one token short of qualifying for every size pair) and all '
            'small arrangements with all three operators',
            'boundary reference-model oracle on every output row (soundness / once / score)'),
}

NOT_YET = 'check not yet built in this session'


def main():
    props = [json.loads(l) for l in open(os.path.join(VERIF, 'properties.jsonl'))]
    m = {
        'version': 1,
        'setup_cmd': './setup.sh',
        'hooks': {
            'guard': 'RV_MONITORS',
            'enable': ('no source hooks: monitors are attached from the harness by rebinding module '
                       'globals after importing the working tree (RV_MONITORS=1 is exported to every '
                       'shard); the documented switch py_stringsimjoin.__use_cython__=False selects '
                       'the Python implementations (no Cython toolchain exists in the sandbox)'),
            'baseline_off_cmd': '/verif/tools/baseline.sh /repo',
            'source_commits': [],
            'add_only': True,
        },
        'engines': [{'name': 'rv', 'path': 'rv/', 'serves_properties': sorted(CHECKS),
                     'kind_free_text': 'runtime monitoring harness: workload generators, monitors '
                                       '(contracts, tokenizer/dispatch traces, sys.monitoring reach), '
                                       'reference-model oracles, sharded runner'}],
        'checks': [],
        'not_applicable': [],
        'notes': ('Technique family: runtime monitoring. Compiler sanitizers / race detectors have '
                  'nothing of the repository to instrument (pure Python at run time), see DESIGN.md §0. '
                  'Exit codes: 0 held, 1 violated (VIOLATION line), 2 inconclusive. Known findings: '
                  'KNOWN_FINDINGS.txt.'),
    }
    for p in props:
        pid = p['id']
        if pid in CHECKS:
            text, tech = CHECKS[pid]
            m['checks'].append({
                'property_id': pid,
                'quick_cmd': './check %s --tier quick' % pid,
                'thorough_cmd': './check %s --tier thorough' % pid,
                'evidence_file': 'evidence/%s.json' % pid,
                'replay_cmd_template': './check %s --replay {path}' % pid,
                'engine': 'rv',
                'level_claimed': {'category': 'exploration', 'text': text,
                                  'design_ref': 'DESIGN.md §3 ' + pid},
                'level_note': COMMON_NOTE,
                'technique': 'runtime monitoring: ' + tech,
            })
        else:
            m['not_applicable'].append({'property_id': pid, 'reason': NOT_YET})
    with open(os.path.join(VERIF, 'MANIFEST.json'), 'w') as f:
        json.dump(m, f, indent=1)
    print('MANIFEST.json: %d checks, %d not_applicable' % (len(m['checks']), len(m['not_applicable'])))


if __name__ == '__main__':
    main()
