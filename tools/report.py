#!/venv/bin/python
"""Regenerates the validation tables of DESIGN.md (between the REPORT markers) from
 - seeded/*/meta.json            (independently seeded changes and which checks caught them)
 - selftest/mutants_last_run.txt (output of `python -m rv.selftest.mutants --baseline`)
"""
import json
import os
import re

VERIF = os.path.dirname(os.path.dirname(os.path.abspath(__file__)))
BEGIN, END = '<!-- REPORT:BEGIN -->', '<!-- REPORT:END -->'


def seeded_table():
    root = os.path.join(VERIF, 'seeded')
    rows = []
    for sid in sorted(os.listdir(root), key=lambda s: (s.split('_')[0], int(s.split('_')[1]))):
        mp = os.path.join(root, sid, 'meta.json')
        if not os.path.exists(mp):
            continue
        m = json.load(open(mp))
        caught = [p for p, r in sorted(m.get('checks', {}).items()) if r.get('exit') == 1]
        what = (m.get('what') or '').replace('\n', ' ').replace('|', '/')
        needs = (m.get('needs') or '').replace('\n', ' ').replace('|', '/')
        rows.append('| %s | %s | %s | %s | %s |' % (sid, m['property'], what[:230], needs[:200],
                                                   ', '.join(caught) or '**none**'))
    head = ('| id | property | what was changed | what it needs to manifest | caught by (quick tier) |\n'
            '|---|---|---|---|---|\n')
    return head + '\n'.join(rows)


def mutants_table():
    p = os.path.join(VERIF, 'rv', 'selftest', 'mutants_last_run.txt')
    if not os.path.exists(p):
        return '(no recorded run)'
    rows = []
    for line in open(p):
        m = re.match(r'^(\S+)\s+(baseline=\S+)?\s*(.*?)\s*=> (OK|MISMATCH)\s*(.*)$', line.rstrip())
        if not m:
            continue
        name, base, checks, verdict, note = m.groups()
        fired = re.findall(r'(C\d+)=FIRED', checks)
        quiet = re.findall(r'(C\d+)=quiet', checks)
        rows.append('| %s | %s | %s | %s | %s |' % (name, (base or '').replace('baseline=', ''),
                                                   ', '.join(fired) or '-',
                                                   ('all %d quiet' % len(quiet)) if len(quiet) > 4 else (', '.join(quiet) or '-'),
                                                   (verdict + ' ' + note.replace('|', '/'))[:160]))
    head = ('| patch | baseline | checks that fired | checks that stayed quiet | as expected? |\n'
            '|---|---|---|---|---|\n')
    return head + '\n'.join(rows)


def main():
    path = os.path.join(VERIF, 'DESIGN.md')
    s = open(path).read()
    body = ('\n### 9.1 Mutation catalogue — last complete run\n\n' + mutants_table() +
            '\n\n### 9.2 Independently seeded changes (sub-agents saw only the property text and a scratch '
            'worktree)\n\n' + seeded_table() + '\n')
    if BEGIN in s and END in s:
        s = s[:s.index(BEGIN) + len(BEGIN)] + body + s[s.index(END):]
    else:
        s = s.rstrip() + '\n\n' + BEGIN + body + END + '\n'
    open(path, 'w').write(s)
    print('DESIGN.md report sections regenerated')


if __name__ == '__main__':
    main()
