#!/bin/bash
# Runs the repository's pinned baseline (guard OFF: no RV_* variable set, no harness on sys.path) and
# checks that every test listed as stable_pass in /root/.vp/BASELINE.json still passes.
REPO="${1:-/repo}"
OUT="$(mktemp -d)"
cd "$REPO" || exit 2
env -u RV_MONITORS -u PYTHONPATH /venv/bin/python -m pytest -ra -q -p no:cacheprovider --timeout=900 \
    --continue-on-collection-errors --junitxml="$OUT/junit.xml" >"$OUT/log.txt" 2>&1
/venv/bin/python - "$OUT/junit.xml" <<'PY'
import json, sys, xml.etree.ElementTree as ET
base = json.load(open('/root/.vp/BASELINE.json'))
want = set(base['stable_pass'])
passed = set()
for tc in ET.parse(sys.argv[1]).getroot().iter('testcase'):
    if not any(c.tag in ('failure', 'error', 'skipped') for c in tc):
        passed.add('%s::%s' % (tc.get('classname'), tc.get('name')))
missing = sorted(want - passed)
print('baseline: %d/%d stable tests pass; %d tests pass in total' % (len(want & passed), len(want), len(passed)))
for m in missing[:20]:
    print('  NOT PASSING:', m)
sys.exit(1 if missing else 0)
PY
rc=$?
rm -rf "$OUT"
exit $rc
