#!/venv/bin/python
"""Evaluate seeded breaking changes delivered by independent sub-agents.

  tools/seeded.py eval <worktree> [--checks C05,C10] [--all] [--keep]
      for every change listed in <worktree>/SEEDED/meta.json:
        1. the diff applies cleanly to the unmodified worktree (same HEAD as /repo);
        2. the pinned baseline still passes with it (tools/baseline.sh <worktree>);
        3. the demonstration exits 0 without the change and non-zero with it;
        4. the named checks (default: the check of the property the change targets) are run with
           VERIF_REPO=<worktree> and must exit 1 (VIOLATION) -- evidence/replays are redirected;
      results are printed and, with --keep, stored as /verif/seeded/<id>_<n>/{patch.diff, demo.py, meta.json}.
  tools/seeded.py recheck [--in-repo] [--all] [ids...]
      re-run the stored changes under /verif/seeded (with --in-repo: git -C /repo apply, run, undo).
"""
import argparse
import json
import os
import shutil
import subprocess
import sys
import time

VERIF = os.path.dirname(os.path.dirname(os.path.abspath(__file__)))
ALL = ['C%02d' % i for i in range(1, 18)]


def sh(cmd, cwd=None, env=None, timeout=3600):
    p = subprocess.run(cmd, cwd=cwd, env=env, stdout=subprocess.PIPE, stderr=subprocess.STDOUT,
                       timeout=timeout, shell=isinstance(cmd, str))
    return p.returncode, p.stdout.decode('utf8', 'replace')


def run_check(pid, repo, work, tier='quick', seed=None):
    env = dict(os.environ)
    env.update({'VERIF_REPO': repo, 'VERIF_WORK': os.path.join(work, 'w'),
                'VERIF_EVIDENCE_DIR': os.path.join(work, 'evidence'),
                'VERIF_REPLAY_DIR': os.path.join(work, 'replays')})
    if seed is not None:
        env['VERIF_SEED'] = str(seed)
    t0 = time.time()
    rc, out = sh([os.path.join(VERIF, 'check'), pid, '--tier', tier], cwd=VERIF, env=env)
    first = [l.strip() for l in out.split('\n') if l.startswith('  oracle=')][:1]
    return rc, time.time() - t0, (first[0][:260] if first else '')


def clean(wt):
    sh(['git', '-C', wt, 'checkout', '--', '.'])


def evaluate(wt, diff, demo, checks, tier='quick'):
    """-> dict of results for one change (worktree is left clean)."""
    res = {}
    clean(wt)
    rc, out = sh(['git', '-C', wt, 'apply', '--check', diff])
    res['applies'] = rc == 0
    if rc != 0:
        res['apply_error'] = out[-400:]
        return res
    env = dict(os.environ, PYTHONWARNINGS='ignore')
    env.pop('PYTHONPATH', None)
    rc0, out0 = sh(['/venv/bin/python', demo], cwd=wt, env=env, timeout=1800)
    res['demo_without'] = rc0
    sh(['git', '-C', wt, 'apply', diff])
    try:
        rc1, out1 = sh(['/venv/bin/python', demo], cwd=wt, env=env, timeout=1800)
        res['demo_with'] = rc1
        res['demo_output_with'] = out1[-600:]
        rcb, outb = sh([os.path.join(VERIF, 'tools', 'baseline.sh'), wt])
        res['baseline_ok'] = rcb == 0
        res['baseline'] = outb.strip().split('\n')[0][-120:]
        work = os.path.join('/tmp', 'seed_eval_%d_%s' % (os.getpid(), os.path.basename(wt)))
        res['checks'] = {}
        for pid in checks:
            rc, wall, first = run_check(pid, wt, work, tier)
            res['checks'][pid] = {'exit': rc, 'wall_s': round(wall, 1), 'first_violation': first}
        shutil.rmtree(work, ignore_errors=True)
    finally:
        clean(wt)
    return res


def cmd_eval(args):
    wt = os.path.abspath(args.worktree)
    meta = json.load(open(os.path.join(wt, 'SEEDED', 'meta.json')))
    prop = meta.get('property') or os.path.basename(wt)[-3:]
    prop = prop.strip().upper()[:3]
    for n, ch in enumerate(meta['changes'], 1):
        diff = os.path.join(wt, 'SEEDED', ch['diff'])
        demo = os.path.join(wt, 'SEEDED', ch['demo'])
        checks = ALL if args.all else (args.checks.split(',') if args.checks else [prop])
        res = evaluate(wt, diff, demo, checks, args.tier)
        caught = [p for p, r in res.get('checks', {}).items() if r['exit'] == 1]
        valid = res.get('applies') and res.get('baseline_ok') and res.get('demo_without') == 0 and \
            res.get('demo_with') not in (0, None)
        print('%s change %d: applies=%s baseline=%s demo(without)=%s demo(with)=%s valid=%s caught_by=%s'
              % (prop, n, res.get('applies'), res.get('baseline_ok'), res.get('demo_without'),
                 res.get('demo_with'), valid, caught))
        for p, r in res.get('checks', {}).items():
            print('    %s exit=%s %.0fs %s' % (p, r['exit'], r['wall_s'], r['first_violation']))
        print('    what : %s' % ch.get('what', '')[:300])
        print('    needs: %s' % ch.get('needs', '')[:300])
        if args.keep and valid:
            d = os.path.join(VERIF, 'seeded', '%s_%d' % (prop, n + args.offset))
            os.makedirs(d, exist_ok=True)
            shutil.copy(diff, os.path.join(d, 'patch.diff'))
            shutil.copy(demo, os.path.join(d, 'demo.py'))
            m = {'property': prop, 'what': ch.get('what'), 'needs': ch.get('needs'),
                 'source': 'independent sub-agent given only the property text and a scratch worktree',
                 'confirmed': {'diff_applies_to_unmodified_tree': True,
                               'baseline_still_passes': res.get('baseline'),
                               'demo_exit_without_change': res.get('demo_without'),
                               'demo_exit_with_change': res.get('demo_with')},
                 'what_i_ran': ['git apply patch.diff in a scratch worktree of /repo HEAD',
                                'tools/baseline.sh <worktree>', 'demo.py with and without the change',
                                'VERIF_REPO=<worktree> ./check <id> --tier %s' % args.tier],
                 'checks': res.get('checks')}
            json.dump(m, open(os.path.join(d, 'meta.json'), 'w'), indent=1)
    return 0


def cmd_recheck(args):
    root = os.path.join(VERIF, 'seeded')
    ids = args.ids or sorted(d for d in os.listdir(root) if os.path.isdir(os.path.join(root, d)))
    bad = []
    for sid in ids:
        d = os.path.join(root, sid)
        meta = json.load(open(os.path.join(d, 'meta.json')))
        prop = meta['property']
        checks = ALL if args.all else (args.checks.split(',') if args.checks else
                                       sorted(set([prop] + meta.get('expected_checks', []))))
        diff = os.path.join(d, 'patch.diff')
        if args.in_repo:
            repo = '/repo'
            rc, out = sh(['git', '-C', repo, 'apply', diff])
        else:
            repo = '/tmp/seed_recheck_%d' % os.getpid()
            shutil.rmtree(repo, ignore_errors=True)
            sh(['git', '-C', '/repo', 'worktree', 'add', '-q', '--detach', repo, 'HEAD'])
            rc, out = sh(['git', '-C', repo, 'apply', diff])
        line = '%-10s' % sid
        try:
            if rc != 0:
                line += ' PATCH DOES NOT APPLY'
                bad.append(sid)
            else:
                work = '/tmp/seed_recheck_work_%d' % os.getpid()
                hit = False
                if args.demo:
                    # the demonstration against the patched tree (hard-coded scratch paths inside the
                    # demo no longer exist; PYTHONPATH provides the tree)
                    denv = dict(os.environ, PYTHONWARNINGS='ignore', PYTHONPATH=repo)
                    rcd, outd = sh(['/venv/bin/python', os.path.join(d, 'demo.py')], cwd=repo, env=denv,
                                   timeout=1800)
                    line += ' demo=%s' % ('fails(as expected)' if rcd != 0 else 'PASSES?')
                for pid in checks:
                    rc, wall, first = run_check(pid, repo, work, args.tier, args.seed)
                    line += ' %s=%s(%.0fs)' % (pid, {0: 'quiet', 1: 'FIRED', 2: 'inconcl'}.get(rc, rc), wall)
                    hit = hit or rc == 1
                    meta.setdefault('checks', {})[pid] = {'exit': rc, 'wall_s': round(wall, 1),
                                                          'first_violation': first}
                shutil.rmtree(work, ignore_errors=True)
                if not hit:
                    bad.append(sid)
                if args.update:
                    json.dump(meta, open(os.path.join(d, 'meta.json'), 'w'), indent=1)
        finally:
            if args.in_repo:
                sh(['git', '-C', '/repo', 'checkout', '--', '.'])
            else:
                sh(['git', '-C', '/repo', 'worktree', 'remove', '--force', repo])
        print(line)
        sys.stdout.flush()
    print('%d seeded changes, not caught: %s' % (len(ids), bad))
    return 1 if bad else 0


def main():
    ap = argparse.ArgumentParser()
    sub = ap.add_subparsers(dest='cmd')
    e = sub.add_parser('eval')
    e.add_argument('worktree')
    e.add_argument('--checks')
    e.add_argument('--all', action='store_true')
    e.add_argument('--keep', action='store_true')
    e.add_argument('--tier', default='quick')
    e.add_argument('--offset', type=int, default=0, help='numbering offset for kept ids')
    r = sub.add_parser('recheck')
    r.add_argument('ids', nargs='*')
    r.add_argument('--in-repo', action='store_true')
    r.add_argument('--all', action='store_true')
    r.add_argument('--checks')
    r.add_argument('--tier', default='quick')
    r.add_argument('--seed', type=int)
    r.add_argument('--update', action='store_true')
    r.add_argument('--demo', action='store_true', help='also run demo.py against the patched tree')
    args = ap.parse_args()
    if args.cmd == 'eval':
        return cmd_eval(args)
    if args.cmd == 'recheck':
        return cmd_recheck(args)
    ap.print_help()
    return 2


if __name__ == '__main__':
    sys.exit(main())
