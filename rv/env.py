"""Process environment for every monitor run.

* the repository is imported from its working tree (VERIF_REPO, default /repo) -- "rebuild from the
  current tree" for a pure-Python package means: a fresh interpreter with that tree first on sys.path;
* the documented public switch ``py_stringsimjoin.__use_cython__ = False`` is applied (no compiled
  extension exists in this sandbox and Cython is not installed);
* PYTHONPATH / PYTHONWARNINGS are exported so that loky workers import the same tree quietly.
"""
import os
import sys
import warnings

VERIF_DIR = os.path.dirname(os.path.dirname(os.path.abspath(__file__)))
REPO = os.environ.get('VERIF_REPO', '/repo')
DEPS = os.path.join(VERIF_DIR, '.deps')
GUARD = 'RV_MONITORS'

_ssj = None


def child_env(extra=None):
    env = dict(os.environ)
    pp = [REPO, VERIF_DIR, DEPS]
    env['PYTHONPATH'] = os.pathsep.join(pp)
    env['PYTHONWARNINGS'] = 'ignore'
    env.setdefault('PYTHONHASHSEED', '0')
    env['VERIF_REPO'] = REPO
    env[GUARD] = '1'
    env['JOBLIB_MULTIPROCESSING'] = env.get('JOBLIB_MULTIPROCESSING', '1')
    env['PIP_NO_INDEX'] = '1'
    if extra:
        env.update(extra)
    return env


def load():
    """Import py_stringsimjoin from the tree under test and return the module."""
    global _ssj
    if _ssj is not None:
        return _ssj
    warnings.filterwarnings('ignore')
    os.environ['PYTHONWARNINGS'] = 'ignore'
    for p in (DEPS, VERIF_DIR, REPO):
        if p in sys.path:
            sys.path.remove(p)
        sys.path.insert(0, p)
    os.environ['PYTHONPATH'] = os.pathsep.join([REPO, VERIF_DIR, DEPS])
    import py_stringsimjoin as ssj
    got = os.path.realpath(os.path.dirname(os.path.dirname(ssj.__file__)))
    if got != os.path.realpath(REPO):
        raise RuntimeError('py_stringsimjoin imported from %s, expected %s' % (got, REPO))
    ssj.__use_cython__ = False
    _ssj = ssj
    return ssj
