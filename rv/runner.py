"""Check driver:  python -m rv.runner <Cxx> [--tier quick|thorough] [--replay file]

plan -> shards (one fresh interpreter each, subprocess.run(timeout)) -> aggregate ->
known-finding classification -> evidence/<id>.json -> exit code
  0 held on everything explored (KNOWN-FINDING lines allowed)
  1 violated   (stdout: VIOLATION property=<id> replay=<path>)
  2 inconclusive (a shard died / timed out, or a deciding monitor observed nothing)
"""
import argparse
import hashlib
import importlib
import json
import os
import subprocess
import sys
import time
from collections import Counter
from concurrent.futures import ThreadPoolExecutor

from rv import env

WORK = os.environ.get('VERIF_WORK', os.path.join(env.VERIF_DIR, '.work'))
KNOWN_FILE = os.path.join(env.VERIF_DIR, 'KNOWN_FINDINGS.txt')


def load_known():
    """-> (open: {property: {key: text}}, fixed: [lines])"""
    open_, fixed = {}, []
    if not os.path.exists(KNOWN_FILE):
        return open_, fixed
    for line in open(KNOWN_FILE):
        line = line.strip()
        if not line or line.startswith('#'):
            continue
        if line.startswith('finding:'):
            head, _, text = line[len('finding:'):].partition('::')
            kv = dict(p.split('=', 1) for p in head.split() if '=' in p)
            open_.setdefault(kv.get('property'), {})[kv.get('key')] = text.strip()
        elif line.startswith('fixed:'):
            fixed.append(line)
    return open_, fixed


def check_module(pid):
    return importlib.import_module('rv.checks.' + pid.lower())


def run_shard_subprocess(pid, shard, tier, seed, timeout):
    os.makedirs(WORK, exist_ok=True)
    tag = '%s_%s_%d_%d' % (pid, shard.get('name', 'shard'), os.getpid(), abs(hash(json.dumps(shard, sort_keys=True))) % 10 ** 8)
    fin = os.path.join(WORK, tag + '.in.json')
    fout = os.path.join(WORK, tag + '.out.json')
    with open(fin, 'w') as f:
        json.dump({'property': pid, 'shard': shard, 'tier': tier, 'seed': seed}, f)
    extra = {}
    if 'hashseed' in shard:
        extra['PYTHONHASHSEED'] = str(shard['hashseed'])
    if shard.get('optimize'):
        # the interpreter runs with assert statements stripped (python -O): a library that validates
        # with `assert`, or hides a side effect inside one, behaves differently there
        extra['PYTHONOPTIMIZE'] = '1'
    t0 = time.time()
    status = 'ok'
    err = ''
    try:
        p = subprocess.run([sys.executable, '-m', 'rv.shard', fin, fout], cwd=env.VERIF_DIR,
                           env=env.child_env(extra), timeout=timeout,
                           stdout=subprocess.PIPE, stderr=subprocess.PIPE)
        if p.returncode != 0:
            status = 'died'
            err = (p.stderr or b'').decode('utf8', 'replace')[-3000:]
    except subprocess.TimeoutExpired:
        status = 'timeout'
    res = None
    if status == 'ok':
        try:
            with open(fout) as f:
                res = json.load(f)
        except Exception as e:  # noqa
            status, err = 'died', 'no result file: %r' % (e,)
    for p_ in (fin, fout):
        try:
            os.unlink(p_)
        except OSError:
            pass
    return {'shard': shard.get('name'), 'status': status, 'err': err, 'wall_s': time.time() - t0,
            'result': res}


def write_replay(pid, v):
    d = os.path.join(os.environ.get('VERIF_REPLAY_DIR', os.path.join(env.VERIF_DIR, 'replays')), pid)
    os.makedirs(d, exist_ok=True)
    blob = json.dumps(v, sort_keys=True, default=repr)
    path = os.path.join(d, hashlib.sha1(blob.encode()).hexdigest()[:16] + '.json')
    with open(path, 'w') as f:
        f.write(json.dumps(v, indent=1, default=repr))
    return path


def main(argv=None):
    ap = argparse.ArgumentParser()
    ap.add_argument('property')
    ap.add_argument('--tier', default=os.environ.get('VERIF_TIER', 'quick'))
    ap.add_argument('--replay')
    ap.add_argument('--jobs', type=int, default=int(os.environ.get('VERIF_JOBS', '16')))
    ap.add_argument('--only', help='run only shards whose name contains this')
    args = ap.parse_args(argv)
    pid = args.property.upper()
    tier = args.tier if args.tier in ('quick', 'thorough') else 'quick'
    seed = int(os.environ.get('VERIF_SEED', '0') or 0)
    mod = check_module(pid)
    t0 = time.time()

    if args.replay:
        return replay(pid, mod, args.replay)

    shards = mod.plan(tier, seed)
    if args.only:
        shards = [s for s in shards if args.only in s.get('name', '')]
    timeout = getattr(mod, 'SHARD_TIMEOUT', {}).get(tier, 900 if tier == 'quick' else 3600)
    with ThreadPoolExecutor(max_workers=max(1, args.jobs)) as ex:
        outs = list(ex.map(lambda s: run_shard_subprocess(pid, s, tier, seed, timeout), shards))

    open_known, _fixed = load_known()
    open_known = open_known.get(pid, {})

    agg = {'evaluations': 0, 'sigs': set(), 'violations': [], 'samples': [], 'counters': Counter(),
           'inconclusive': [], 'shards': [], 'n_violations': 0, 'known': Counter(), 'reach': {},
           'sets': {}, 'known_witness': {}}
    for o in outs:
        agg['shards'].append({'name': o['shard'], 'status': o['status'],
                              'wall_s': round(o['wall_s'], 2)})
        if o['status'] != 'ok':
            agg['inconclusive'].append('shard %s %s %s' % (o['shard'], o['status'], o['err'][-800:]))
            continue
        r = o['result']
        agg['evaluations'] += r.get('evaluations', 0)
        agg['sigs'].update(r.get('sigs', []))
        agg['counters'].update(r.get('counters', {}))
        agg['inconclusive'].extend(r.get('inconclusive', []))
        for k, v in r.get('reach', {}).items():
            agg['reach'][k] = agg['reach'].get(k, 0) + v
        for k, v in r.get('sets', {}).items():
            agg['sets'].setdefault(k, set()).update(v)
        if len(agg['samples']) < 6:
            agg['samples'].extend(r.get('samples', [])[:2])
        agg['n_violations'] += r.get('n_violations', 0)
        for v in r.get('violations', []):
            v['shard'] = o['shard']
            agg['violations'].append(v)
        for k, n in r.get('known_counts', {}).items():
            agg['known'][k] += n
            agg['known_witness'].setdefault(k, r.get('known_witness', {}).get(k))

    if hasattr(mod, 'finalize'):
        mod.finalize(agg, tier)

    # ---- classify violations
    new, known_hits = list(agg['violations']), Counter()
    for k, n in agg['known'].items():
        if k in open_known:
            known_hits[k] += n
        else:
            # classified by mechanism, but that finding is not (any longer) listed as open
            w = agg['known_witness'].get(k) or {'oracle': 'known-key-not-listed', 'case': None}
            w = dict(w)
            w['message'] = '[%d occurrences; mechanism %s is not an open finding] %s' % (
                n, k, w.get('message'))
            new.append(w)
    for k in sorted(open_known):
        if known_hits.get(k):
            print('KNOWN-FINDING: property=%s key=%s %s (observed %d times in this run)'
                  % (pid, k, open_known[k], known_hits[k]))

    status = 'held'
    rc = 0
    replay_paths = []
    if new:
        status, rc = 'violated', 1
        for v in new[:10]:
            path = write_replay(pid, v)
            replay_paths.append(path)
            print('VIOLATION property=%s replay=%s' % (pid, path))
            print('  oracle=%s %s' % (v.get('oracle'), str(v.get('message'))[:600]))
        if len(new) > 10:
            print('  ... and %d more violations' % (len(new) - 10))
    elif agg['inconclusive']:
        status, rc = 'inconclusive', 2
        for r in agg['inconclusive'][:10]:
            print('INCONCLUSIVE property=%s %s' % (pid, r))

    wall = time.time() - t0
    cov = {
        'evaluations': int(agg['evaluations']),
        'distinct_nontrivial': int(len(agg['sigs'])),
        'rule': getattr(mod, 'RULE', ''),
        'samples': agg['samples'][:6] or [{'note': 'no sample recorded'}],
        'exhaustive': False,
        'verdict': status,
        'counters': dict(sorted(agg['counters'].items())),
        'distinct_sets': dict((k, len(v)) for k, v in sorted(agg['sets'].items())),
        'reach': dict(sorted(agg['reach'].items())),
        'known_findings_observed': dict(known_hits),
        'inconclusive_reasons': agg['inconclusive'][:10],
        'shards': agg['shards'],
        'repo': env.REPO,
    }
    if hasattr(mod, 'coverage_extra'):
        cov.update(mod.coverage_extra(agg, tier))
    ev = {
        'property_id': pid, 'tier': tier, 'seed': seed, 'level': getattr(mod, 'LEVEL', 'exploration'),
        'coverage': cov,
        'assumptions': getattr(mod, 'ASSUMPTIONS', []),
        'wall_s': round(wall, 2),
        'violations': int(len(new)),
    }
    evdir = os.environ.get('VERIF_EVIDENCE_DIR', os.path.join(env.VERIF_DIR, 'evidence'))
    os.makedirs(evdir, exist_ok=True)
    with open(os.path.join(evdir, pid + '.json'), 'w') as f:
        json.dump(ev, f, indent=1, default=repr)
    print('%s %s tier=%s seed=%d evaluations=%d distinct_nontrivial=%d violations=%d known=%d wall=%.1fs'
          % (pid, status.upper(), tier, seed, cov['evaluations'], cov['distinct_nontrivial'],
             len(new), sum(known_hits.values()), wall))
    for k, v in list(cov['counters'].items())[:40]:
        print('   %-44s %s' % (k, v))
    return rc


def replay(pid, mod, path):
    env.load()
    with open(path) as f:
        v = json.load(f)
    case = v.get('case')
    if case is None:
        print('replay file carries no case')
        return 2
    from rv.shard import Rec
    rec = Rec(pid)
    mod.run_case(case, rec)
    open_known, _ = load_known()
    open_known = open_known.get(pid, {})
    new = list(rec.violations)
    for k, w in rec.known_witness.items():
        if k in open_known:
            print('KNOWN-FINDING: property=%s key=%s %s' % (pid, k, open_known[k]))
        else:
            new.append(w)
    for x in new:
        print('VIOLATION-DETAIL oracle=%s %s' % (x.get('oracle'), str(x.get('message'))[:1000]))
    if new:
        print('VIOLATION property=%s replay=%s' % (pid, path))
        return 1
    print('replay: no violation reproduced')
    return 0


if __name__ == '__main__':
    sys.exit(main())
