"""Materialise JSON-able case descriptions into pandas tables / tokenizers / API calls.

A *table spec* is {'cols': [...], 'data': {col: [values]}, 'index': [...]|None, 'dtypes': {col: 'object'|'str'|'int64'|...}}.
A *tokenizer spec* is {'kind': 'ws'|'delim'|'qgram'|'alpha'|'alnum', ..., 'return_set': bool}.
A *call spec* is a dict with key 'api' (see exec_call).
Everything is plain JSON (json.dumps(..., allow_nan=True) keeps NaN and None apart).
"""
import copy
import json
import math
import zlib
from collections import Counter

import numpy as np
import pandas as pd

from rv import env
from rv import model

JOINS = ('jaccard_join', 'cosine_join', 'dice_join', 'overlap_coefficient_join', 'overlap_join',
         'edit_distance_join')
JOIN_MEASURE = {'jaccard_join': 'JACCARD', 'cosine_join': 'COSINE', 'dice_join': 'DICE',
                'overlap_coefficient_join': 'OVERLAP_COEFFICIENT', 'overlap_join': 'OVERLAP',
                'edit_distance_join': 'EDIT_DISTANCE'}
MEASURE_JOIN = dict((v, k) for k, v in JOIN_MEASURE.items())
FILTERS = ('SizeFilter', 'PrefixFilter', 'PositionFilter', 'SuffixFilter', 'OverlapFilter')


# ----------------------------------------------------------------------------- tables

def make_table(spec):
    cols = spec['cols']
    data = spec['data']
    dtypes = spec.get('dtypes', {})
    n = len(data[cols[0]]) if cols else 0
    index = spec.get('index')
    if index is not None and len(index) and isinstance(index[0], (list, tuple)):
        idx = pd.MultiIndex.from_tuples([tuple(x) for x in index])
    else:
        idx = pd.Index(index) if index is not None else pd.RangeIndex(n)
    series = {}
    for c in cols:
        vals = data[c]
        dt = dtypes.get(c)
        if dt is None:
            if any(isinstance(v, str) for v in vals) or len(vals) == 0 or \
                    all(v is None for v in vals):
                dt = 'object'
        if dt == 'object':
            s = pd.Series(list(vals), dtype=object, index=idx)
        elif dt == 'str':
            s = pd.Series(list(vals), dtype='str', index=idx)
        elif dt is None:
            s = pd.Series(list(vals), index=idx)
        else:
            s = pd.Series(list(vals), dtype=dt, index=idx)
        series[c] = s
    df = pd.DataFrame(series, index=idx)
    df = df[cols] if cols else df
    if spec.get('dup_label') is not None and len(cols):
        # two columns the call never names carry the SAME label (pd.concat(axis=1) of two sources)
        extra = pd.DataFrame({0: ['n%d' % (i % 3) for i in range(n)], 1: [float(i) for i in range(n)]}, index=idx)
        extra.columns = [spec['dup_label'], spec['dup_label']]
        df = pd.concat([df, extra], axis=1)
    if spec.get('frame_class') == 'user':
        df = UserFrame(df)
    if spec.get('no_duplicate_labels') and df.index.is_unique and df.columns.is_unique:
        df = df.set_flags(allows_duplicate_labels=False)      # frames derived from it inherit the flag
    if spec.get('index_name') is not None and not isinstance(df.index, pd.MultiIndex):
        df.index.name = spec['index_name']       # e.g. the key column's name: set_index(key, drop=False)
    return df


class UserFrame(pd.DataFrame):
    """A user-level DataFrame subclass (what geopandas / domain libraries hand around): still a DataFrame."""
    _metadata = ['source']

    @property
    def _constructor(self):
        return UserFrame


def table_spec(cols, rows, index=None, dtypes=None):
    data = dict((c, [r[i] for r in rows]) for i, c in enumerate(cols))
    return {'cols': list(cols), 'data': data, 'index': index, 'dtypes': dtypes or {}}


def spec_rows(spec):
    cols = spec['cols']
    n = len(spec['data'][cols[0]]) if cols else 0
    return [[spec['data'][c][i] for c in cols] for i in range(n)]


def spec_len(spec):
    cols = spec['cols']
    return len(spec['data'][cols[0]]) if cols else 0


def column(spec, c):
    return spec['data'][c]


def snapshot_df(df):
    """Deep, comparable snapshot of a DataFrame: columns, dtypes, index labels, canonical cells
    with the *kind* of missing value preserved for object columns."""
    def cell(v):
        if v is None:
            return ('None',)
        if isinstance(v, float) and v != v:
            return ('nan',)
        if v is pd.NA:
            return ('NA',)
        if isinstance(v, np.generic):
            v = v.item()
            if isinstance(v, float) and v != v:
                return ('nan',)
        return (type(v).__name__, v if isinstance(v, (int, float, str, bool)) else repr(v))
    return {
        'columns': [repr(c) for c in df.columns],
        'dtypes': [str(t) for t in df.dtypes],
        'index': [repr(i) for i in df.index],
        'index_type': type(df.index).__name__,
        'axis_names': repr((list(df.index.names), list(df.columns.names))),
        'attrs': repr(sorted(df.attrs.items())) if hasattr(df, 'attrs') else '',
        'flags': repr(getattr(getattr(df, 'flags', None), 'allows_duplicate_labels', None)),
        'cells': [[cell(v) for v in df[c].tolist()] for c in df.columns] if len(df.columns) == len(set(df.columns)) else
                 [[cell(v) for v in df.iloc[:, i].tolist()] for i in range(df.shape[1])],
    }


def snapshot_series(s):
    return snapshot_df(s.to_frame(name='v')) | {'name': repr(s.name)}


# ----------------------------------------------------------------------------- tokenizers

_USER_TOK = {}


def user_tokenizer_class(name):
    """User-defined tokenizers: subclasses of the stock classes that override tokenize() (the library
    accepts any Tokenizer; code that special-cases the stock classes by isinstance must still call the
    override)."""
    import py_stringmatching as sm
    if not _USER_TOK:
        class LowerWhitespaceTokenizer(sm.WhitespaceTokenizer):
            def tokenize(self, input_string):
                return super(LowerWhitespaceTokenizer, self).tokenize(input_string.lower())

        class StripDelimiterTokenizer(sm.DelimiterTokenizer):
            def tokenize(self, input_string):
                toks = super(StripDelimiterTokenizer, self).tokenize(input_string)
                out = []
                for t in toks:
                    t = t.strip()
                    if t and not (self.get_return_set() and t in out):
                        out.append(t)
                return out
        class MemoWhitespaceTokenizer(sm.WhitespaceTokenizer):
            """Keeps the token list of every string it has seen and hands out that very list again
            (a user-level speed-up): whoever edits a list returned by tokenize() corrupts it."""
            def tokenize(self, input_string):
                memo = self.__dict__.setdefault('_rv_memo', {})
                key = (input_string, self.get_return_set())
                if key not in memo:
                    memo[key] = super(MemoWhitespaceTokenizer, self).tokenize(input_string)
                return memo[key]
        _USER_TOK['memo'] = MemoWhitespaceTokenizer
        MemoWhitespaceTokenizer.__module__ = __name__
        MemoWhitespaceTokenizer.__qualname__ = 'MemoWhitespaceTokenizer'
        globals()['MemoWhitespaceTokenizer'] = MemoWhitespaceTokenizer

        class TupleWhitespaceTokenizer(sm.WhitespaceTokenizer):
            """Hands out immutable tuples of tokens."""
            def tokenize(self, input_string):
                return tuple(super(TupleWhitespaceTokenizer, self).tokenize(input_string))

        class TolerantWhitespaceTokenizer(sm.WhitespaceTokenizer):
            """Does not raise on input that is not a string (None, NaN, numbers): no tokens."""
            def tokenize(self, input_string):
                if not isinstance(input_string, str):
                    return []
                return super(TolerantWhitespaceTokenizer, self).tokenize(input_string)
        for nm, c in (('tuple', TupleWhitespaceTokenizer), ('tolerant', TolerantWhitespaceTokenizer)):
            _USER_TOK[nm] = c
            c.__module__ = __name__
            c.__qualname__ = c.__name__
            globals()[c.__name__] = c

        class LowerQgramTokenizer(sm.QgramTokenizer):
            def tokenize(self, input_string):
                return super(LowerQgramTokenizer, self).tokenize(input_string.lower())
        _USER_TOK['qlower'] = LowerQgramTokenizer
        LowerQgramTokenizer.__module__ = __name__
        LowerQgramTokenizer.__qualname__ = 'LowerQgramTokenizer'
        globals()['LowerQgramTokenizer'] = LowerQgramTokenizer
        for c in (LowerWhitespaceTokenizer, StripDelimiterTokenizer):
            c.__module__ = __name__
            c.__qualname__ = c.__name__
            globals()[c.__name__] = c           # picklable by reference from worker processes
        _USER_TOK.update(lower=LowerWhitespaceTokenizer, strip=StripDelimiterTokenizer)
    return _USER_TOK[name]


try:        # defined at import time: worker processes unpickle them by reference (rv.tables.<name>)
    user_tokenizer_class('lower')
except Exception:       # py_stringmatching not importable (tooling interpreter): only needed when used
    pass


def make_tokenizer(spec, cls_override=None):
    import py_stringmatching as sm
    kind = spec['kind']
    rs = bool(spec.get('return_set', False))
    if kind == 'ws':
        cls, kw = (user_tokenizer_class(spec['user']) if spec.get('user') in ('lower', 'memo', 'tuple', 'tolerant') else sm.WhitespaceTokenizer), {}
    elif kind == 'delim':
        cls, kw = (user_tokenizer_class('strip') if spec.get('user') == 'strip' else sm.DelimiterTokenizer), \
            {'delim_set': set(spec.get('delims', [' ']))}
    elif kind == 'qgram':
        cls = user_tokenizer_class('qlower') if spec.get('user') == 'lower' else sm.QgramTokenizer
        kw = {'qval': spec.get('q', 2), 'padding': spec.get('padding', True),
              'prefix_pad': spec.get('prefix_pad', '#'), 'suffix_pad': spec.get('suffix_pad', '$')}
    elif kind == 'alpha':
        cls, kw = sm.AlphabeticTokenizer, {}
    elif kind == 'alnum':
        cls, kw = sm.AlphanumericTokenizer, {}
    else:
        raise ValueError(kind)
    if cls_override is not None:
        cls = cls_override(cls)
    return cls(return_set=rs, **kw)


def tokenizer_state(tok):
    """Full configuration of a tokenizer object (everything in its __dict__)."""
    out = {}
    for k, v in sorted(vars(tok).items()):
        if k.startswith('_rv_'):
            continue
        if isinstance(v, (set, frozenset)):
            out[k] = sorted(repr(x) for x in v)
        elif hasattr(v, 'pattern'):
            out[k] = 'regex:' + v.pattern
        else:
            out[k] = repr(v)
    out['__class__'] = type(tok).__mro__[1].__name__ if getattr(type(tok), '_rv_traced', False) \
        else type(tok).__name__
    return out


def model_tokens(spec, value, as_set=True):
    """Tokens of a value under a *fresh* tokenizer of the given spec (the reference side)."""
    key = (repr(sorted(spec.items(), key=lambda kv: kv[0])), as_set)
    tok = _TOK_CACHE.get(key)
    if tok is None:
        s2 = dict(spec)
        s2['return_set'] = as_set
        tok = make_tokenizer(s2)
        _TOK_CACHE[key] = tok
    return tok.tokenize(value)


_TOK_CACHE = {}


# ----------------------------------------------------------------------------- calls

def np_number(value, how):
    """The same number as a numpy scalar: how = True (int64 / float64) or a numpy type name."""
    if not how:
        return value
    if how is True:
        how = 'int64' if isinstance(value, int) else 'float64'
    if how == 'array0d':
        return np.array(value)          # a 0-d ndarray (np.nditer, arr.reshape(())): mutable in place
    return getattr(np, how)(value)


def make_filter(ssj, fspec, tok):
    kind = fspec['kind']
    cls = getattr(ssj, kind)
    how = fspec.get('threshold_np')
    am = fspec.get('allow_missing', False)
    via_attr = bool(fspec.get('allow_missing_via_attr'))
    if via_attr:
        am = not am        # built with the other value; the documented public attribute is assigned below
    if kind == 'OverlapFilter':
        flt = cls(tok, np_number(fspec.get('overlap_size', 1), how), fspec.get('comp_op', '>='), am)
    else:
        flt = cls(tok, fspec.get('measure_spelling') or fspec['measure'], np_number(fspec['threshold'], how),
                  fspec.get('allow_empty', True), am)
    if via_attr:
        flt.allow_missing = fspec.get('allow_missing', False)
        PRESENTATION['filter_flag_assigned_after_construction'] += 1
    return flt


def sim_function(name):
    """Similarity functions handed to apply_matcher (dependency code, or harness-defined)."""
    import py_stringmatching as sm
    if name == 'JACCARD':
        return sm.Jaccard().get_raw_score
    if name == 'COSINE':
        return sm.Cosine().get_raw_score
    if name == 'DICE':
        return sm.Dice().get_raw_score
    if name == 'OVERLAP_COEFFICIENT':
        return sm.OverlapCoefficient().get_raw_score
    if name == 'EDIT_DISTANCE':
        return sm.Levenshtein().get_raw_score
    if name == 'OVERLAP':
        return overlap_fn
    if name == 'user_bound':
        return UserSim(3).score
    if name == 'user_partial':
        import functools
        return functools.partial(shared_minus, 1)          # a callable without __name__
    if name == 'user_callable':
        return CallableSim(2)                               # an instance with __call__
    if name == 'user_order':
        return order_sensitive                              # depends on list semantics (order, indexing)
    if name == 'user_tversky':
        return sm.TverskyIndex(alpha=0.9, beta=0.1).get_raw_score     # configured py_stringmatching measure
    if name == 'user_len_diff':
        return len_diff
    if name == 'user_neg':
        return neg_len_diff
    if name == 'user_signed':
        return signed_overlap
    if name == 'user_numdiff':
        return num_or_date_diff
    if name == 'user_nan':
        return nan_on_equal_length
    if name == 'user_jitter':
        return jitter_overlap
    if name == 'user_nw':
        return sm.NeedlemanWunsch().get_raw_score
    raise ValueError(name)


def overlap_fn(x, y):
    return len(set(x) & set(y))


def len_diff(x, y):
    return abs(len(x) - len(y))


def shared_minus(k, x, y):
    return len(set(x) & set(y)) - k


class CallableSim(object):
    def __init__(self, k):
        self.k = k

    def __call__(self, x, y):
        return float(len(set(x) & set(y)) * self.k)


def order_sensitive(x, y):
    # 2 for the same tokens in the same order, 1 for the same first token, else 0; concatenates lists
    if len(x) == 0 or len(y) == 0:
        return 0
    both = x + y
    return 2 if list(x) == list(y) else (1 if both[0] == y[0] else 0)


def neg_len_diff(x, y):
    # a negated distance: never positive
    return -abs(len(x) - len(y))


def signed_overlap(x, y):
    # takes both signs
    return len(set(x) & set(y)) - 2


def num_or_date_diff(x, y):
    # for match attributes that are numbers or dates (tokenizer None): |x - y|, in days for dates
    d = x - y
    return abs(d.days) if hasattr(d, 'days') else abs(float(d))


def nan_on_equal_length(x, y):
    # not a number for ordinary, non-missing pairs (inf - inf, 0/0 of a home-made measure)
    return float('nan') if len(x) == len(y) else float(len(x) - len(y))


def jitter_overlap(x, y):
    # work per pair varies (0-3 ms): with n_jobs > 1 a later chunk can finish before an earlier one
    import time
    time.sleep((len(x) * 7 + len(y) * 3) % 4 / 1000.0)
    return len(set(x) & set(y))


class UserSim(object):
    """User-defined similarity class; its bound method exercises the copyreg pickling."""
    def __init__(self, k):
        self.k = k

    def score(self, x, y):
        return (len(set(x) & set(y)) * self.k) % 7


def join_kwargs(call):
    kw = {}
    for k in ('comp_op', 'allow_empty', 'allow_missing', 'l_out_attrs', 'r_out_attrs',
              'l_out_prefix', 'r_out_prefix', 'out_sim_score', 'n_jobs'):
        if k in call:
            kw[k] = copy.deepcopy(call[k])
    kw['show_progress'] = bool(call.get('show_progress', False))
    if call.get('same_out_list') and kw.get('l_out_attrs') is not None:
        kw['r_out_attrs'] = kw['l_out_attrs']      # ONE list object handed over for both sides
    if call.get('names_built_at_runtime', True):
        # attribute names computed at run time are EQUAL to the key / join attribute names passed
        # alongside, not the same string objects
        for k in ('l_out_attrs', 'r_out_attrs'):
            if isinstance(kw.get(k), list) and len(kw[k]) % 2 == 1:
                kw[k] = [(a + ' ')[:-1] if isinstance(a, str) else a for a in kw[k]]
    if call.get('out_attrs_as') == 'tuple':
        for k in ('l_out_attrs', 'r_out_attrs'):
            if isinstance(kw.get(k), list):
                kw[k] = tuple(kw[k])
    if call.get('n_jobs_as') == 'numpy' and 'n_jobs' in kw:
        kw['n_jobs'] = np.int64(kw['n_jobs'])
    if call.get('omit_defaults'):
        # leave out every keyword whose value equals the documented default
        defaults = {'comp_op': '<=' if call.get('api') == 'edit_distance_join' else '>=',
                    'allow_empty': True, 'allow_missing': False, 'l_out_attrs': None, 'r_out_attrs': None,
                    'l_out_prefix': 'l_', 'r_out_prefix': 'r_', 'out_sim_score': True, 'n_jobs': 1}
        for k, d in defaults.items():
            if k in kw and (kw[k] is d or (not isinstance(d, bool) and d is not None and kw[k] == d
                                           and type(kw[k]) is type(d))):
                del kw[k]
    return kw


PRESENTATION = Counter()      # what exec_call did beyond the plain call (reported by the shard)
WARM_RATE = 8                 # percent of calls whose tables "were used before"
LOKY_SAMPLE = 8              # per mille of the calls with 2 <= n_jobs <= 4


class HarnessError(Exception):
    pass


def _warm_mode(call):
    """'inplace' / 'derived' / None.  Explicit call['warm'] wins; otherwise a deterministic 8 % of the
    calls (a function of the call itself, so a replay makes the same choice)."""
    if 'warm' in call:
        return call['warm']
    if call.get('api') not in JOINS and call.get('api') not in ('filter_tables', 'filter_candset',
                                                                 'apply_matcher'):
        return None
    try:
        h = zlib.crc32(json.dumps(jsonable([call.get('api'), call.get('threshold'), call.get('filter'),
                                             call.get('ltable'), call.get('rtable')]),
                                  sort_keys=True, default=repr).encode())
    except Exception:
        return None
    if h % 100 >= WARM_RATE:
        return None
    return 'inplace' if (h // 100) % 2 else 'derived'


def _used_before(ssj, call, objs, L, R, mode):
    """The 'used before' presentation: the judged call receives frames that already went through
    the same API call while one of their join columns held the same values in another row order
    (so other rows were missing / empty / long), and were then given their real values
      inplace : by assigning the column of the very same DataFrame object,
      derived : on a .copy() of it (pandas deep-copies .attrs to derived frames).
    The frames handed over are value-, dtype-, index- and column-identical to fresh ones; a library
    that keeps anything about a table beyond the call (on the frame, in .attrs, in a module-level
    cache keyed by the object or its shape) now answers for the wrong rows."""
    la, ra = call.get('l_attr'), call.get('r_attr')
    if L is None or R is None or not L.columns.is_unique or not R.columns.is_unique \
            or la not in L.columns or ra not in R.columns:
        return L, R
    before = (snapshot_df(L), snapshot_df(R))
    P = []
    for df, attr, key in ((L, la, call.get('l_key')), (R, ra, call.get('r_key'))):
        p = df.copy()
        n = len(p)
        if n > 1 and attr != key:
            order = np.roll(np.arange(n), 1)
            p[attr] = pd.Series(df[attr].iloc[order].array, index=p.index, dtype=df[attr].dtype)
        P.append(p)
    wobjs = dict(objs)
    wobjs.update({'ltable': P[0], 'rtable': P[1]})
    wobjs.pop('filter', None)
    wcall = dict(call, warm=None)
    import warnings as _w
    try:
        with _w.catch_warnings():
            _w.simplefilter('ignore')
            _exec_call2(ssj, wcall, wobjs)
    except Exception:
        PRESENTATION['warm_call_raised'] += 1
    out = []
    for df, p, attr in ((L, P[0], la), (R, P[1], ra)):
        if mode == 'derived':
            p = p.copy()
        p[attr] = pd.Series(df[attr].array, index=p.index, dtype=df[attr].dtype)
        out.append(p)
    after = (snapshot_df(out[0]), snapshot_df(out[1]))
    for b, a in zip(before, after):
        b, a = dict(b), dict(a)
        b.pop('attrs', None), a.pop('attrs', None)
        if repr(b) != repr(a):
            raise HarnessError('used-before presentation changed the table')
    PRESENTATION['warm_' + mode] += 1
    return out[0], out[1]


def unflag_if_key_is_attr(call, L, R):
    """Finding F15 is judged by C15 alone: everywhere else a table flagged allows_duplicate_labels=False
    is handed over unflagged when its key attribute is also its join attribute."""
    if L is not None and call.get('l_key') == call.get('l_attr') and not L.flags.allows_duplicate_labels:
        L = L.set_flags(allows_duplicate_labels=True)
    if R is not None and call.get('r_key') == call.get('r_attr') and not R.flags.allows_duplicate_labels:
        R = R.set_flags(allows_duplicate_labels=True)
    return L, R


def exec_call(ssj, call, objs=None):
    if call.get('show_progress'):
        import contextlib
        import io
        with contextlib.redirect_stdout(io.StringIO()), contextlib.redirect_stderr(io.StringIO()):
            return _exec_call_backend(ssj, call, objs)
    return _exec_call_backend(ssj, call, objs)


def _exec_call_backend(ssj, call, objs=None):
    """Run one API call under the joblib backend named by call['backend'] ('threading' by default:
    the same job functions on the same chunks, in-process and therefore monitored; 'loky' = the
    library's default process pool)."""
    backend = call.get('backend')
    nj = call.get('n_jobs', 1)
    if backend is None:
        backend = 'threading'
        # a deterministic ~1.5 % of the small parallel calls of every check run in real worker
        # processes (the library's default backend): what differs only there (lazily initialised
        # module state, lossy pickling, result order) is otherwise seen by the loky shards alone
        if isinstance(nj, int) and not isinstance(nj, bool) and 2 <= nj <= 4 and LOKY_SAMPLE:
            try:
                h = zlib.crc32(json.dumps(jsonable([call.get('api'), call.get('threshold'), call.get('filter'),
                                                     call.get('ltable', {}).get('data') if isinstance(call.get('ltable'), dict) else None]),
                                          sort_keys=True, default=repr).encode())
            except Exception:
                h = 1
            if h % 1000 < LOKY_SAMPLE:
                backend = 'loky'
                PRESENTATION['backend_loky'] += 1
    if nj == 1 or backend == 'loky':
        return _exec_call(ssj, call, objs)
    import joblib
    with joblib.parallel_config(backend=backend):
        return _exec_call(ssj, call, objs)


def _exec_call(ssj, call, objs=None):
    if call.get('threshold_np') and 'threshold' in call:
        call = dict(call)
        call['threshold'] = np_number(call['threshold'], call.pop('threshold_np'))
    return _exec_call2(ssj, call, objs)


def _exec_call2(ssj, call, objs=None):
    """Run one API call.  `objs` may carry pre-built shared objects: 'ltable', 'rtable',
    'candset', 'tok' (used as is when present); otherwise they are built from the specs."""
    objs = objs or {}
    api = call['api']

    def get(name, builder, key=None):
        if name in objs:
            return objs[name]
        sp = call.get(key or name)
        return builder(sp) if sp is not None else None

    mode = None
    if 'ltable' not in objs and 'rtable' not in objs:
        mode = _warm_mode(call)

    def tables():
        L = get('ltable', make_table)
        R = get('rtable', make_table)
        if not call.get('keep_flags'):
            # a table flagged allows_duplicate_labels=False whose key attribute is also its join attribute
            # makes the library's internal projection [key, join] fail inside pandas (finding F15, judged
            # by C15 alone): everywhere else that one combination is not presented
            if L is not None and call.get('l_key') == call.get('l_attr') and 'ltable' not in objs and \
                    not L.flags.allows_duplicate_labels:
                L = L.set_flags(allows_duplicate_labels=True)
            if R is not None and call.get('r_key') == call.get('r_attr') and 'rtable' not in objs and \
                    not R.flags.allows_duplicate_labels:
                R = R.set_flags(allows_duplicate_labels=True)
        if mode:
            L, R = _used_before(ssj, call, objs, L, R, mode)
        return L, R

    if api in JOINS:
        L, R = tables()
        kw = join_kwargs(call)
        fn = getattr(ssj, api)
        pos = _positional(call)
        if api == 'edit_distance_join':
            kw.pop('allow_empty', None)
            if 'tok' in objs or call.get('tok') is not None:
                kw['tokenizer'] = get('tok', make_tokenizer)
            tail = positional_tail(POSITIONAL['edit_distance_join'], kw, {'comp_op': '<='}) \
                if pos and 'tokenizer' not in kw else None
            if tail is not None:
                PRESENTATION['positional_calls'] += 1
                return fn(L, R, call['l_key'], call['r_key'], call['l_attr'], call['r_attr'],
                          call['threshold'], *tail)
            return fn(L, R, call['l_key'], call['r_key'], call['l_attr'], call['r_attr'],
                      call['threshold'], **kw)
        tok = get('tok', make_tokenizer)
        if api == 'overlap_join':
            kw.pop('allow_empty', None)
        tail = positional_tail(POSITIONAL['overlap_join' if api == 'overlap_join' else 'join'], kw) if pos else None
        if tail is not None:
            PRESENTATION['positional_calls'] += 1
            return fn(L, R, call['l_key'], call['r_key'], call['l_attr'], call['r_attr'],
                      tok, call['threshold'], *tail)
        return fn(L, R, call['l_key'], call['r_key'], call['l_attr'], call['r_attr'],
                  tok, call['threshold'], **kw)
    if api in ('filter_tables', 'filter_pair', 'filter_candset', 'filter_new'):
        tok = get('tok', make_tokenizer)
        flt = objs.get('filter') or make_filter(ssj, call['filter'], tok)
        if api == 'filter_new':
            return flt
        if api == 'filter_pair':
            return flt.filter_pair(call['lstring'], call['rstring'])
        L, R = tables()
        if api == 'filter_tables':
            kw = {}
            for k in ('l_out_attrs', 'r_out_attrs', 'l_out_prefix', 'r_out_prefix', 'n_jobs'):
                if k in call:
                    kw[k] = copy.deepcopy(call[k])
            if call.get('same_out_list') and kw.get('l_out_attrs') is not None:
                kw['r_out_attrs'] = kw['l_out_attrs']
            if call['filter']['kind'] == 'OverlapFilter' and 'out_sim_score' in call:
                kw['out_sim_score'] = call['out_sim_score']
            if _positional(call):
                kw2 = dict(kw, show_progress=bool(call.get('show_progress', False)))
                ovf = call['filter']['kind'] == 'OverlapFilter'
                tail = positional_tail(POSITIONAL['overlap_filter_tables' if ovf else 'filter_tables'], kw2,
                                       {'out_sim_score': False})
                if tail is not None:
                    PRESENTATION['positional_calls'] += 1
                    return flt.filter_tables(L, R, call['l_key'], call['r_key'], call['l_attr'],
                                             call['r_attr'], *tail)
            return flt.filter_tables(L, R, call['l_key'], call['r_key'], call['l_attr'],
                                     call['r_attr'], show_progress=bool(call.get('show_progress', False)),
                                     **kw)
        C = get('candset', make_table)
        if _positional(call):
            PRESENTATION['positional_calls'] += 1
            return flt.filter_candset(C, call['c_l_key'], call['c_r_key'], L, R,
                                      call['l_key'], call['r_key'], call['l_attr'], call['r_attr'],
                                      call.get('n_jobs', 1), bool(call.get('show_progress', False)))
        return flt.filter_candset(C, call['c_l_key'], call['c_r_key'], L, R,
                                  call['l_key'], call['r_key'], call['l_attr'], call['r_attr'],
                                  n_jobs=call.get('n_jobs', 1),
                                  show_progress=bool(call.get('show_progress', False)))
    if api == 'apply_matcher':
        L, R = tables()
        C = get('candset', make_table)
        tok = get('tok', make_tokenizer)
        sf = objs.get('sim_function') or sim_function(call['sim'])
        kw = {}
        for k in ('allow_missing', 'l_out_attrs', 'r_out_attrs', 'l_out_prefix', 'r_out_prefix',
                  'out_sim_score', 'n_jobs'):
            if k in call:
                kw[k] = copy.deepcopy(call[k])
        if _positional(call):
            kw2 = dict(kw, comp_op=call.get('comp_op', '>='), show_progress=bool(call.get('show_progress', False)))
            tail = positional_tail(POSITIONAL['apply_matcher'], kw2)
            if tail is not None:
                PRESENTATION['positional_calls'] += 1
                return ssj.apply_matcher(C, call['c_l_key'], call['c_r_key'], L, R,
                                         call['l_key'], call['r_key'], call['l_attr'], call['r_attr'],
                                         tok, sf, call['threshold'], *tail)
        return ssj.apply_matcher(C, call['c_l_key'], call['c_r_key'], L, R,
                                 call['l_key'], call['r_key'], call['l_attr'], call['r_attr'],
                                 tok, sf, call['threshold'], call.get('comp_op', '>='),
                                 show_progress=bool(call.get('show_progress', False)), **kw)
    if api == 'profile':
        T = get('ltable', make_table)
        if 'profile_attrs' not in call:
            return ssj.profile_table_for_join(T)          # argument omitted: the default applies
        pa = call.get('profile_attrs')
        if pa == '__columns__':
            pa = T.columns                 # the table's own Index object, as in profile(A, A.columns)
        return ssj.profile_table_for_join(T, pa)
    if api == 'dataframe_column_to_str':
        T = get('ltable', make_table)
        if _positional(call):
            PRESENTATION['positional_calls'] += 1
            return ssj.dataframe_column_to_str(T, call['col'], call.get('inplace', False),
                                               call.get('return_col', False))
        return ssj.dataframe_column_to_str(T, call['col'], inplace=call.get('inplace', False),
                                           return_col=call.get('return_col', False))
    if api == 'series_to_str':
        T = get('ltable', make_table)
        return ssj.series_to_str(T[call['col']], inplace=call.get('inplace', False))
    raise ValueError(api)


# The published parameter order (documentation of the pinned release).  Callers pass arguments
# positionally; a reordered signature silently binds them to other parameters.
POSITIONAL = {
    'join': ['comp_op', 'allow_empty', 'allow_missing', 'l_out_attrs', 'r_out_attrs', 'l_out_prefix',
             'r_out_prefix', 'out_sim_score', 'n_jobs', 'show_progress'],
    'overlap_join': ['comp_op', 'allow_missing', 'l_out_attrs', 'r_out_attrs', 'l_out_prefix',
                     'r_out_prefix', 'out_sim_score', 'n_jobs', 'show_progress'],
    'edit_distance_join': ['comp_op', 'allow_missing', 'l_out_attrs', 'r_out_attrs', 'l_out_prefix',
                           'r_out_prefix', 'out_sim_score', 'n_jobs', 'show_progress', 'tokenizer'],
    'filter_tables': ['l_out_attrs', 'r_out_attrs', 'l_out_prefix', 'r_out_prefix', 'n_jobs', 'show_progress'],
    'overlap_filter_tables': ['l_out_attrs', 'r_out_attrs', 'l_out_prefix', 'r_out_prefix', 'out_sim_score',
                              'n_jobs', 'show_progress'],
    'filter_candset': ['n_jobs', 'show_progress'],
    'apply_matcher': ['comp_op', 'allow_missing', 'l_out_attrs', 'r_out_attrs', 'l_out_prefix', 'r_out_prefix',
                      'out_sim_score', 'n_jobs', 'show_progress'],
}
DEFAULTS = {'comp_op': '>=', 'allow_empty': True, 'allow_missing': False, 'l_out_attrs': None,
            'r_out_attrs': None, 'l_out_prefix': 'l_', 'r_out_prefix': 'r_', 'out_sim_score': True,
            'n_jobs': 1, 'show_progress': True}
POSITIONAL_RATE = 5          # percent of the calls that pass their optional arguments positionally


def positional_tail(order, kw, defaults=None):
    """kw -> list of trailing positional arguments in the published order (defaults filled in up to
    the last argument given), or None when some keyword is not in the published list."""
    d = dict(DEFAULTS)
    d.update(defaults or {})
    if any(k not in order for k in kw):
        return None
    last = max([order.index(k) for k in kw] or [-1])
    return [kw[k] if k in kw else d[k] for k in order[:last + 1]]


def _positional(call):
    if 'positional' in call:
        return bool(call['positional'])
    try:
        h = zlib.crc32(json.dumps(jsonable([call.get('api'), call.get('threshold'), call.get('comp_op'),
                                             call.get('l_out_attrs'), call.get('n_jobs'),
                                             call.get('rtable', {}).get('data') if isinstance(call.get('rtable'), dict) else None]),
                                  sort_keys=True, default=repr).encode())
    except Exception:
        return False
    return (h // 7) % 100 < POSITIONAL_RATE


def jsonable(o):
    """Make a structure JSON-able (numpy scalars, tuples, sets)."""
    if isinstance(o, dict):
        return dict((str(k), jsonable(v)) for k, v in o.items())
    if isinstance(o, (list, tuple)):
        return [jsonable(v) for v in o]
    if isinstance(o, (set, frozenset)):
        return sorted(jsonable(v) for v in o)
    if isinstance(o, np.generic):
        return o.item()
    if isinstance(o, float) or isinstance(o, int) or isinstance(o, str) or o is None or \
            isinstance(o, bool):
        return o
    return repr(o)
