"""Mechanism classifier for known finding F7 (key `suffix-unaligned-estimate`).

The finding: SuffixFilter applies the PPJoin+ Hamming-distance estimate to the two suffixes that
follow the two *full prefixes* (cut points not aligned at a common token) while budgeting the
whole-set Hamming distance.  A drop of a qualifying pair is attributed to this finding only if a
pinned copy of that estimate, fed with the inputs SuffixFilter derives for the pair (token ranks by
frequency then name, prefix lengths and required overlap from the pinned formulas), also rejects it.
Drops through any other path (missing / empty handling, prefix length <= 0, another filter, a
changed estimate that rejects more than the pinned one) are NOT classified and stay violations.
"""
from math import ceil, floor, sqrt

from rv import model
from rv import tables as T

KEY = 'suffix-unaligned-estimate'
MAX_DEPTH = 2


def prefix_length(n, measure, t, q):
    if n == 0:
        return 0
    if measure == 'COSINE':
        return int(n - ceil(round(t * t * n, 4)) + 1)
    if measure == 'DICE':
        return int(n - ceil(round((t / (2 - t)) * n, 4)) + 1)
    if measure == 'EDIT_DISTANCE':
        return min(q * int(floor(t)) + 1, n)       # (as repaired in /repo ea2b156)
    if measure == 'JACCARD':
        return int(n - ceil(round(t * n, 4)) + 1)
    if measure == 'OVERLAP':
        return max(n - int(ceil(t)) + 1, 0)


def overlap_threshold(l, r, measure, t, q):
    if measure == 'COSINE':
        return ceil(round(t * sqrt(l * r), 4))
    if measure == 'DICE':
        return ceil(round((t / 2) * (l + r), 4))
    if measure == 'EDIT_DISTANCE':
        return max(l + q - 1, r + q - 1) - q + 1 - q * t
    if measure == 'JACCARD':
        return ceil(round((t / (1 + t)) * (l + r), 4))
    if measure == 'OVERLAP':
        return t


def filter_suffix(l_suffix, r_suffix, lp, rp, ln, rn, alpha):
    if lp >= alpha and rp >= alpha:
        return False
    hmax = ln + rn - 2 * alpha
    h = _est(l_suffix, r_suffix, ln - lp, rn - rp, hmax, 1)
    return not (h <= hmax)


def _est(l_suffix, r_suffix, ln, rn, hmax, depth):
    abs_diff = abs(ln - rn)
    if depth > MAX_DEPTH or ln == 0 or rn == 0:
        return abs_diff
    if ln == 1 and rn == 1:
        return int(not l_suffix[0] == r_suffix[0])
    r_mid = int(floor(rn / 2))
    r_mid_token = r_suffix[r_mid]
    o = (hmax - abs_diff) / 2
    if ln < rn:
        o_l, o_r = 1, 0
    else:
        o_l, o_r = 0, 1
    (r_l, r_r, flag, diff) = _partition(r_suffix, r_mid_token, r_mid, r_mid)
    (l_l, l_r, flag, diff) = _partition(l_suffix, r_mid_token,
                                        max(0, int(r_mid - o - abs_diff * o_l)),
                                        min(ln - 1, int(r_mid + o + abs_diff * o_r)))
    if flag == 0:
        return hmax + 1
    h = abs(len(l_l) - len(r_l)) + abs(len(l_r) - len(r_r)) + diff
    if h > hmax:
        return h
    h_l = _est(l_l, r_l, len(l_l), len(r_l), hmax - abs(len(l_r) - len(r_r)) - diff, depth + 1)
    h = h_l + abs(len(l_r) - len(r_r)) + diff
    if h <= hmax:
        h_r = _est(l_r, r_r, len(l_r), len(r_r), hmax - h_l - diff, depth + 1)
        return h_l + h_r + diff
    return h


def _partition(tokens, probe, left, right):
    right = min(right, len(tokens) - 1)
    if right < left:
        return [], [], 0, 1
    if tokens[left] > probe:
        return [], [], 0, 1
    if tokens[right] < probe:
        return [], [], 0, 1
    pos = _bsearch(tokens, probe, left, right)
    tl = tokens[0:pos]
    if tokens[pos] == probe:
        return tl, tokens[pos + 1:], 1, 0
    return tl, tokens[pos:], 1, 1


def _bsearch(tokens, probe, left, right):
    if left == right:
        return left
    mid = int(floor((left + right) / 2))
    if tokens[mid] == probe:
        return mid
    if tokens[mid] < probe:
        return _bsearch(tokens, probe, mid + 1, right)
    return _bsearch(tokens, probe, left, mid)


def ordering(token_lists):
    freq = {}
    for tl in token_lists:
        for t in tl:
            freq[t] = freq.get(t, 0) + 1
    items = sorted(freq.items(), key=lambda kv: kv[0])
    order = {}
    for idx, (tok, f) in enumerate(sorted(items, key=lambda kv: kv[1])):
        order[tok] = idx + 1
    return order


def classify(api, fspec, base, view, i, j):
    """-> KEY if the pinned unaligned-suffix estimate rejects pair (i, j) as SuffixFilter would see
    it through `api`, else None."""
    if fspec.get('kind') != 'SuffixFilter':
        return None
    measure, t = fspec['measure'], fspec['threshold']
    tok = base['tok']
    q = tok.get('q', 2)
    bag = (measure == 'EDIT_DISTANCE')
    lt = list(T.model_tokens(tok, view.lvals[i], as_set=not bag))
    rt = list(T.model_tokens(tok, view.rvals[j], as_set=not bag))
    if api == 'filter_tables':
        # table-level order: left rows + the chunk of right rows that holds row j (filter_tables
        # recomputes the order per job; chunks are the contiguous round()-based partition)
        n_jobs = base.get('n_jobs', 1) or 1
        present_r = [x for x in range(len(view.rvals)) if not view.rmiss[x]]
        if n_jobs < 0:
            import multiprocessing
            n_jobs = max(multiprocessing.cpu_count() + 1 + n_jobs, 1)
        n_jobs = max(1, min(n_jobs, len(present_r)))
        chunk = present_r
        if n_jobs > 1:
            size = 1.0 / n_jobs * len(present_r)
            for c in range(n_jobs):
                part = present_r[int(round(c * size)):int(round((c + 1) * size))]
                if j in part:
                    chunk = part
                    break
        cache = getattr(view, '_f7_order', None)
        if cache is None:
            cache = view._f7_order = {}
        ckey = (n_jobs, tuple(chunk[:1]), len(chunk))
        if ckey not in cache:
            lists = [T.model_tokens(tok, v, as_set=not bag)
                     for v, m in zip(view.lvals, view.lmiss) if not m]
            lists += [T.model_tokens(tok, view.rvals[x], as_set=not bag) for x in chunk]
            cache[ckey] = ordering(lists)
        order = cache[ckey]
    else:
        order = ordering([lt, rt])
    lo = sorted(order[x] for x in lt)
    ro = sorted(order[x] for x in rt)
    ln, rn = len(lo), len(ro)
    if ln == 0 and rn == 0:
        return None
    lp = prefix_length(ln, measure, t, q)
    rp = prefix_length(rn, measure, t, q)
    if lp <= 0 or rp <= 0:
        return None
    alpha = overlap_threshold(ln, rn, measure, t, q)
    if filter_suffix(lo[lp:], ro[rp:], lp, rp, ln, rn, alpha):
        return KEY
    return None
