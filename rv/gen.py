"""Workload generators.  Everything is driven by an explicit random.Random and returns JSON-able
specs (rv.tables), so a case can be replayed from (generator name, arguments)."""
import itertools
import math
import random
import struct

from rv import model
from rv import tables as T

NAN = float('nan')


# ----------------------------------------------------------------------------- thresholds

def nextafter(x, direction):
    return math.nextafter(x, direction)


def threshold_pool(kind='basic'):
    """Deterministic pool of thresholds in (0,1]: grids and small fractions with their float
    neighbours (values where threshold*size is not exactly representable)."""
    s = set()
    for k in range(1, 101):
        s.add(k / 100.0)
    for k in range(1, 21):
        s.add(k / 20.0)
    for q in range(2, 13):
        for p in range(1, q + 1):
            v = p / float(q)
            s.add(v)
            if kind != 'basic':
                for w in (nextafter(v, 0.0), nextafter(v, 2.0)):
                    if 0 < w <= 1:
                        s.add(w)
    if kind != 'basic':
        for q in range(2, 13):
            for p in range(1, q + 1):
                for d in (1e-5, 4e-5, -1e-5):
                    w = round(p / float(q), 4) + d
                    if 0 < w <= 1:
                        s.add(w)
    if kind == 'dense':
        for k in range(1, 1000, 7):
            s.add(k / 1000.0)
        for k in range(1, 10000, 137):
            s.add(k / 10000.0)
    return sorted(s)


def random_threshold(rng):
    r = rng.random()
    if r < 0.10:
        # a few 1e-5 next to the 4-decimal rounding of an attainable score (more than 4 decimals)
        q = rng.randint(2, 12)
        v = round(rng.randint(1, q) / float(q), 4) + rng.choice([1e-5, 2e-5, 4e-5, -1e-5, -4e-5, 5e-5, 4e-6, 3e-6, -4e-6])
        return max(1e-6, min(1.0, v))
    r = rng.random()
    if r < 0.35:
        return rng.randint(1, 100) / 100.0
    if r < 0.55:
        q = rng.randint(2, 12)
        return rng.randint(1, q) / float(q)
    if r < 0.65:
        return rng.randint(1, 1000) / 1000.0
    if r < 0.72:
        return rng.randint(1, 10000) / 10000.0
    if r < 0.74:
        return rng.choice([1e-9, 1e-6, 1e-300, 1e-160, 5e-324])
    if r < 0.78:
        return 1.0
    return max(1e-6, min(1.0, rng.random()))


# ----------------------------------------------------------------------------- W1 tight tables

def tight_tables(measure, threshold, sizes, op='>=', shuffle_rng=None, extra_overlap=0,
                 id_base=0):
    """One (left,right) table pair holding, for every (a, b) in `sizes`, a left row of a tokens and
    a right row of b tokens sharing exactly o* tokens (the least overlap that makes the pair
    `required`), every pair in its own vocabulary group.  Shared tokens have frequency 2, private
    ones 1, so under a rarest-first order the shared tokens come LAST in both rows -- the worst
    case of the prefix-filter lemma -- for every (a, b) simultaneously."""
    lrows, rrows, groups = [], [], []
    gid = 0
    for (a, b) in sizes:
        o = model.min_required_overlap(measure, threshold, a, b, op)
        if o is None:
            continue
        o = min(min(a, b), o + extra_overlap)
        g = 'g%d' % gid
        shared = ['%ss%d' % (g, i) for i in range(o)]
        lt = shared + ['%sx%d' % (g, i) for i in range(a - o)]
        rt = shared + ['%sy%d' % (g, i) for i in range(b - o)]
        if shuffle_rng is not None:
            shuffle_rng.shuffle(lt)
            shuffle_rng.shuffle(rt)
        lrows.append([id_base + gid, ' '.join(lt)])
        rrows.append([id_base + gid, ' '.join(rt)])
        groups.append((a, b, o))
        gid += 1
    L = T.table_spec(['id', 's'], lrows, dtypes={'s': 'object'})
    R = T.table_spec(['id', 's'], rrows, dtypes={'s': 'object'})
    return L, R, groups


# ----------------------------------------------------------------------------- ambiguous token sets

def ambiguous_tables(rng, n=14):
    """Values for a comma-delimiter tokenizer whose TOKENS contain blanks, dashes and empty strings:
    different token sets that coincide once the tokens are joined, sorted or stripped
    ({'a b', 'c'} / {'a', 'b c'} / {'a b c'}, {'ab', 'c'} / {'a', 'bc'}, {' a'} / {'a'}, {'a', ''} / {'a'}).
    Any signature of a record other than its token set itself confuses some of them."""
    toks = ['a', 'b', 'c', 'a b', 'b c', 'a b c', 'ab', 'bc', 'abc', ' a', 'a ', 'c a', 'a-b', 'b-c', 'a|b']
    words = ['a', 'b', 'c', 'd', 'e']
    bases = [sorted(rng.sample(words, rng.choice([2, 3, 3, 4]))) for _ in range(3)]
    out = []
    for side in 'lr':
        vals = []
        for _ in range(n):
            k = rng.choice([1, 2, 2, 3, 3, 4])
            ts = rng.sample(toks, k)
            if rng.random() < 0.7:
                # the same word sequence cut into tokens at different places: 'a,b,c' / 'a b,c' /
                # 'a,b c' / 'a b c' (blank inside tokens), 'ab,c' / 'a,bc' (nothing), 'a-b,c' ...
                base = rng.choice(bases)
                sep = rng.choice([' ', ' ', '', '-'])
                ts, cur = [], [base[0]]
                for w in base[1:]:
                    if rng.random() < 0.5:
                        cur.append(w)
                    else:
                        ts.append(sep.join(cur))
                        cur = [w]
                ts.append(sep.join(cur))
                rng.shuffle(ts)
            if rng.random() < 0.15:
                ts.append('')              # 'a,' -> tokens 'a' and possibly ''
            if rng.random() < 0.15:
                ts.append(ts[0])           # a repeated token (set semantics)
            vals.append(','.join(ts))
        keys = rng.sample(range(100), n)
        out.append(T.table_spec([side + 'id', side + 'attr'], [[k, v] for k, v in zip(keys, vals)],
                                dtypes={side + 'attr': 'object'}))
    return out[0], out[1], {'kind': 'delim', 'delims': [','], 'return_set': True}


# ----------------------------------------------------------------------------- W5 rare shared tokens

_RARE = {}


def rare_shared_tables(N):
    """One table pair holding, for every (a, b, o) with 1 <= o <= min(a, b) <= max(a, b) <= N, a left
    row of a tokens and a right row of b tokens sharing exactly o tokens, where the SHARED tokens are
    the rare ones (they occur in that pair only) and the other tokens are common (they occur in many
    rows): under a rarest-first order every shared token lies inside both prefixes -- the mirror image
    of W1, where shared tokens come last.  Any shortcut that decides a pair from what the prefixes
    (or the position filter's overlap count) already show is exercised on every pair."""
    if N not in _RARE:
        lrows, rrows, groups = [], [], []
        gid = 0
        for a in range(1, N + 1):
            for b in range(1, N + 1):
                for o in range(1, min(a, b) + 1):
                    sh = ['s%d_%d' % (gid, i) for i in range(o)]
                    lrows.append([gid, ' '.join(sh + ['cl%d' % i for i in range(a - o)])])
                    rrows.append([gid, ' '.join(['cr%d' % i for i in range(b - o)] + sh)])
                    groups.append((a, b, o))
                    gid += 1
        L = T.table_spec(['id', 's'], lrows, dtypes={'s': 'object'})
        R = T.table_spec(['id', 's'], rrows, dtypes={'s': 'object'})
        _RARE[N] = (L, R, groups)
    return _RARE[N]


def near_score_thresholds(measure, N, rng, count):
    """Thresholds at, a hair above and a hair below scores attained by sets of up to N tokens."""
    scores = sorted(set(s for a in range(1, N + 1) for b in range(a, N + 1) for o in range(1, a + 1)
                        for s in model.raw_scores(measure, a, b, o) if s < 1.0))
    out = []
    for s in rng.sample(scores, min(count, len(scores))):
        out.append(rng.choice([s, s + 1e-5, s + 2e-5, s + 4e-6, nextafter(s, 1), s - 1e-5, nextafter(s, 0),
                               round(s, 4), round(s, 4) + 1e-5]))
    return [min(1.0, max(1e-6, t)) for t in out]


# ----------------------------------------------------------------------------- large tables

def large_planted_tables(rng, n, kind, q=2, pairs=14):
    """Tables of n rows each (beyond every plausible 'small table' switch: 500, 1000, 1024, 2048
    rows) made of filler rows that match nothing, with a few planted matching pairs at random
    positions (never at position 0, mostly at positions that no regular sample would visit).
    kind 'ws': word tokens, planted pairs share 5 of 6 / 6 of 6 / 3 of 6 tokens;
    kind 'ed': strings for edit distance, planted pairs at distance 0, 1, 2 (substitution, insertion,
    deletion, also inside runs of repeated characters of strings with 16-30 characters).
    -> L, R, planted = [(left key, right key, info)]"""
    letters = 'abcdefghijklmnopqrst'
    lpos = rng.sample(range(1, n), pairs)
    rpos = rng.sample(range(1, n), pairs)
    lvals, rvals = [None] * n, [None] * n
    planted = []
    for x, (i, j) in enumerate(zip(lpos, rpos)):
        if kind == 'ws':
            toks = ['p%dt%d' % (x, t) for t in range(6)]
            shared = (5, 6, 3, 4)[x % 4]
            # the shared tokens occur in this pair only; every row also holds two tokens that are
            # common on its side of the join (they occur in every tenth filler row)
            lv = toks[:] + ['lcw%d' % (x % 10), 'lcw%d' % ((x + 3) % 10)]
            rv = toks[:shared] + ['p%du%d' % (x, t) for t in range(6 - shared)] + \
                ['rcw%d' % (x % 10), 'rcw%d' % ((x + 3) % 10)]
            rng.shuffle(lv)
            rng.shuffle(rv)
            lvals[i], rvals[j] = ' '.join(lv), ' '.join(rv)
            planted.append((i, j, {'shared': shared, 'a': 8, 'b': 8}))
        else:
            m = x % 5
            # a private alphabet per pair: its q-grams occur in these two rows only
            al = ''.join(chr(0x3b1 + 6 * x + c) for c in range(6)) if x % 2 else 'uvwxyz'
            up = chr(0x410 + x)
            if m == 0:
                base = ''.join(rng.choice(al) for _ in range(rng.randint(6, 12)))
                other = base
            elif m == 1:
                base = ''.join(rng.choice(al) for _ in range(rng.randint(8, 14)))
                p = rng.randrange(len(base))
                other = base[:p] + up + base[p + 1:]
            elif m == 2:      # deletion inside a run, long strings ('committee' / 'commitee')
                unit = rng.choice([al[5], al[4:6], al[3:6]])
                base = al[:2] * 2 + unit * rng.randint(6, 9) + al[2] + al[0]
                p = rng.randint(5, len(base) - 4)
                other = base[:p] + base[p + 1:]
            elif m == 3:
                base = ''.join(rng.choice(al) for _ in range(rng.randint(16, 30)))
                p = rng.randrange(len(base))
                other = base[:p] + up + base[p:]
            else:
                base = ''.join(rng.choice(al) for _ in range(rng.randint(10, 20)))
                p, p2 = sorted(rng.sample(range(len(base)), 2))
                other = base[:p] + up + base[p + 1:p2] + base[p2 + 1:]
            lvals[i], rvals[j] = base, other
            planted.append((i, j, {'l': base, 'r': other}))
    if kind == 'ws':
        # near misses: left rows 'nm<i> alpha beta' (a token of their own plus two common ones) and
        # right rows 'alpha beta': Jaccard 2/3 -- unless the row's own token gets lost on the way
        free_l = [i for i in range(1, n) if lvals[i] is None]
        free_r = [i for i in range(1, n) if rvals[i] is None]
        for i in rng.sample(free_l, 20):
            lvals[i] = 'nm%d alpha beta' % i
        for j in rng.sample(free_r, 2):
            rvals[j] = 'alpha beta'
    for vals, ns in ((lvals, 'l'), (rvals, 'r')):
        for i in range(n):
            if vals[i] is None:
                if kind == 'ws':
                    vals[i] = '%sf%da %sf%db %scw%d' % (ns, i, ns, i, ns, i % 10) if i % 10 < 4 else \
                        '%sf%da %sf%db %sf%dc' % (ns, i, ns, i, ns, i)
                else:
                    vals[i] = ''.join(rng.choice(letters) for _ in range(rng.randint(8, 14)))
    L = T.table_spec(['id', 's'], [[i, v] for i, v in enumerate(lvals)], dtypes={'s': 'object'})
    R = T.table_spec(['id', 's'], [[i, v] for i, v in enumerate(rvals)], dtypes={'s': 'object'})
    return L, R, planted


# ----------------------------------------------------------------------------- structured ranks / variants

def modular_tables(M, k=3, rng=None):
    """M rows per table over a vocabulary of k*M tokens, every token exactly once per table (all
    frequencies tie, so a token's rank is its alphabetical position); row j holds the tokens
    j, j+M, ..., j+(k-1)M: the ranks of the tokens of one record are congruent modulo M.  The right
    table holds the same sets in another word order and another row order.  Whatever folds ranks into
    M (or a divisor of M) buckets -- bitmaps, bloom-like signatures, hash tables -- sees every record
    as a single bucket."""
    rng = rng or random.Random(M)
    width = len(str(k * M))
    def tok(i):
        return 't%0*d' % (width, i)
    lrows = [[j, ' '.join(tok(j + x * M) for x in range(k))] for j in range(M)]
    order = list(range(M))
    rng.shuffle(order)
    rrows = [[1000000 + j, ' '.join(tok(j + x * M) for x in reversed(range(k)))] for j in order]
    # (nothing else in the tables: any other row would change token frequencies and with them the ranks)
    return (T.table_spec(['id', 's'], lrows, dtypes={'s': 'object'}),
            T.table_spec(['id', 's'], rrows, dtypes={'s': 'object'}))


def variant_tables(rng, n_groups=12):
    """Product-name variants: ADJACENT left rows share their rare leading tokens (the same prefix in
    the global order) and differ in the number of frequent trailing tokens ('zx0a zx0b black steel
    case' / '... pro mini'); the right table holds copies of some of the variants."""
    common = ['black', 'steel', 'case', 'pro', 'mini', 'max', 'new', 'set', 'of', 'the']
    lrows, rrows, lid, rid = [], [], 0, 0
    for g in range(n_groups):
        rare = ['zx%da' % g, 'zx%db' % g] + (['zx%dc' % g] if g % 3 == 0 else [])
        variants = []
        base = rng.sample(common, rng.randint(1, 3))
        variants.append(rare + base)
        for _ in range(rng.randint(1, 3)):
            base = base + rng.sample([c for c in common if c not in base], rng.randint(1, 2))
            variants.append(rare + base)
        if rng.random() < 0.5:
            variants.reverse()
        for v in variants:
            lrows.append([lid, ' '.join(v)])
            lid += 1
        for v in rng.sample(variants, rng.randint(1, len(variants))):
            w = list(v)
            rng.shuffle(w)
            rrows.append([rid, ' '.join(w)])
            rid += 1
    for c in common:        # filler rows keep the trailing tokens frequent
        lrows.append([lid, ' '.join(rng.sample(common, 4))])
        rrows.append([rid, ' '.join(rng.sample(common, 3))])
        lid += 1
        rid += 1
    return (T.table_spec(['id', 's'], lrows, dtypes={'s': 'object'}),
            T.table_spec(['id', 's'], rrows, dtypes={'s': 'object'}))


# ----------------------------------------------------------------------------- ubiquitous token

def ubiquitous_tables(n, rng):
    """A long left table (n rows, beyond 2**14) in which ONE token occurs in (almost) every row -- a
    posting list of more than 16384 entries -- against a handful of right rows; some left rows consist
    of that token alone, some share it and one more token with a right row."""
    lrows = []
    special = set(rng.sample(range(1, n), 12))
    sp = sorted(special)
    for i in range(n):
        if i in special:
            k = sp.index(i)
            lrows.append([i, ['inc', 'zenith%d inc' % (k % 3), 'inc zenith%d co' % (k % 3), 'zenith%d' % (k % 3)][k % 4]])
        else:
            lrows.append([i, 'u%d inc' % i])
    rrows = [[0, 'zenith0 inc'], [1, 'inc'], [2, 'zenith1 inc co'], [3, 'other words'], [4, 'zenith2'], [5, 'inc co']]
    L = T.table_spec(['id', 's'], lrows, dtypes={'s': 'object'})
    R = T.table_spec(['id', 's'], rrows, dtypes={'s': 'object'})
    return L, R


# ----------------------------------------------------------------------------- huge records

def huge_tail_tables(n_own, n_shared):
    """Row 0 of the left table holds n_own tokens of its own followed (in the global rarest-first
    order: they are the more frequent ones) by n_shared tokens that make up row 0 of the right
    table: every common token sits beyond position n_own of the long record's ordered token list."""
    shared = ['s%d' % i for i in range(n_shared)]
    own = ['o%d' % i for i in range(n_own)]
    L = T.table_spec(['id', 's'], [[0, ' '.join(shared[:n_shared // 2] + own + shared[n_shared // 2:])],
                                   [1, 'a b c'], [2, 'q r'], [3, 'x']], dtypes={'s': 'object'})
    R = T.table_spec(['id', 's'], [[10, ' '.join(shared)], [11, 'a b d'], [12, 'q r']], dtypes={'s': 'object'})
    return L, R


def huge_tables(n, diff=3):
    """Two 3-row tables; row 0 of each holds n tokens of which all but `diff` are shared (token counts
    beyond 2**8, 2**15, 2**16 wrap narrow integer arrays and overflow fixed-size buffers), the other
    rows are ordinary short values (one of them equal on both sides)."""
    shared = ['t%d' % i for i in range(n - diff)]
    lt = shared + ['lx%d' % i for i in range(diff)]
    rt = ['ry%d' % i for i in range(diff)] + shared
    L = T.table_spec(['id', 's'], [[0, ' '.join(lt)], [1, 'a b c'], [2, 'q r']], dtypes={'s': 'object'})
    R = T.table_spec(['id', 's'], [[0, ' '.join(rt)], [1, 'a b d'], [2, 'q r']], dtypes={'s': 'object'})
    return L, R


# ----------------------------------------------------------------------------- W4 exact scores

_EXACT = {}


def exact_score_groups(measure, max_size=64):
    """{t: [(a, b, o), ...]}: every threshold t that IS the double-precision score of some pair of
    sets (sizes a <= b <= max_size sharing o tokens) with the pairs scoring exactly t.  Joining at
    such a t puts pairs of large sets exactly on the boundary -- where an algebraically equivalent
    rewrite of the comparison (o >= t*min(a,b), o*o >= t*t*a*b, ...) rounds differently; the first
    disagreements need sets of 20+ tokens."""
    key = (measure, max_size)
    if key not in _EXACT:
        d = {}
        for a in range(1, max_size + 1):
            for b in sorted(set([a, a + 1, a + 2, a + 5, 2 * a, max_size])):
                if b < a or b > max_size:
                    continue
                for o in range(1, a + 1):
                    for t in model.raw_scores(measure, a, b, o):
                        d.setdefault(t, []).append((a, b, o))
        _EXACT[key] = d
    return _EXACT[key]


def exact_score_tables(measure, t, rng, max_size=64, limit=14):
    """Tables for one exact-score threshold: the pairs scoring exactly t (a sample, the largest sets
    first), for each also the pair with one shared token fewer and one more, and both orientations."""
    triples = list(exact_score_groups(measure, max_size)[t])
    triples.sort(key=lambda x: (not rewrite_sensitive(measure, t, *x), -x[0]))
    triples = triples[:limit // 2] + rng.sample(triples[limit // 2:], min(len(triples) - limit // 2, limit // 2)) \
        if len(triples) > limit else triples
    groups = []
    for (a, b, o) in triples:
        for oo in (o, o - 1, o + 1):
            if 1 <= oo <= min(a, b):
                groups.append((a, b, oo))
                if a != b:
                    groups.append((b, a, oo))
    lrows, rrows = [], []
    for gid, (a, b, o) in enumerate(groups):
        g = 'g%d' % gid
        shared = ['%ss%d' % (g, i) for i in range(o)]
        lt = shared + ['%sx%d' % (g, i) for i in range(a - o)]
        rt = shared + ['%sy%d' % (g, i) for i in range(b - o)]
        rng.shuffle(lt)
        rng.shuffle(rt)
        lrows.append([gid, ' '.join(lt)])
        rrows.append([gid, ' '.join(rt)])
    L = T.table_spec(['id', 's'], lrows, dtypes={'s': 'object'})
    R = T.table_spec(['id', 's'], rrows, dtypes={'s': 'object'})
    return L, R, groups


def rewrite_sensitive(measure, t, a, b, o):
    """True when some algebraically equivalent form of `score >= t` evaluates differently from the
    division at this exact-score point (the product rounds to the other side of the integer)."""
    if measure == 'OVERLAP_COEFFICIENT':
        return t * min(a, b) != o
    if measure == 'JACCARD':
        return t * (a + b - o) != o or (t / (1 + t)) * (a + b) != o or t * (a + b) / (1 + t) != o
    if measure == 'DICE':
        return t * (a + b) != 2 * o or t * (a + b) / 2 != o or (t / 2) * (a + b) != o
    if measure == 'COSINE':
        return t * math.sqrt(a * b) != o or t * t * a * b != o * o or \
            t * math.sqrt(a) * math.sqrt(b) != o
    return False


def exact_score_plan(rng, measures, per_measure, max_size=64):
    """[(measure, t, op)]: per measure a seeded sample of its exact-score thresholds: first the
    rewrite-sensitive ones (up to 3/4 of the budget; all of them when per_measure is None), then
    thresholds attained by pairs of large sets, then the rest."""
    out = []
    for m in measures:
        d = exact_score_groups(m, max_size)
        ths = sorted(t for t in d if t < 1.0)
        sens = [t for t in ths if any(rewrite_sensitive(m, t, a, b, o) for a, b, o in d[t])]
        sset = set(sens)
        rest = [t for t in ths if t not in sset]
        if per_measure is not None:
            k = min(len(sens), per_measure - per_measure // 4)
            sens = rng.sample(sens, k)
            rest = rng.sample(rest, min(len(rest), per_measure - k))
        for i, t in enumerate(sens + rest):
            out.append((m, t, ('>=', '>=', '=', '>=', '>')[i % 5]))
    return out


# ----------------------------------------------------------------------------- W2 arrangements

def arrangements(a, b, o):
    """All distinguishable interleavings of (a-o) x-only, (b-o) y-only and o shared tokens."""
    items = 'X' * (a - o) + 'Y' * (b - o) + 'S' * o
    return sorted(set(itertools.permutations(items)))


def arrangement_tables(max_size, min_overlap=1):
    """Every arrangement of every (a, b, o), a,b <= max_size, one vocabulary group each.  A filler
    row per group (left table) holds the x-only and y-only tokens so that every token of the group
    has frequency 2; the alphabetical tie-break then realises exactly the intended global order."""
    lrows, rrows, meta = [], [], []
    gid = 0
    for a in range(1, max_size + 1):
        for b in range(1, max_size + 1):
            for o in range(min_overlap, min(a, b) + 1):
                for arr in arrangements(a, b, o):
                    g = 'g%05d' % gid
                    names = ['%sp%02d' % (g, i) for i in range(len(arr))]
                    x = [n for n, k in zip(names, arr) if k in 'XS']
                    y = [n for n, k in zip(names, arr) if k in 'YS']
                    fill = [n for n, k in zip(names, arr) if k in 'XY']
                    lrows.append([2 * gid, ' '.join(x)])
                    rrows.append([gid, ' '.join(y)])
                    if fill:
                        lrows.append([2 * gid + 1, ' '.join(fill)])
                    meta.append((a, b, o, ''.join(arr)))
                    gid += 1
    L = T.table_spec(['id', 's'], lrows, dtypes={'s': 'object'})
    R = T.table_spec(['id', 's'], rrows, dtypes={'s': 'object'})
    return L, R, meta


def small_fraction_thresholds(max_size, measures=('JACCARD', 'COSINE', 'DICE')):
    """Thresholds separating distinct attainable similarity values of sets with <= max_size tokens,
    with their float neighbours."""
    vals = set()
    for a in range(1, max_size + 1):
        for b in range(1, max_size + 1):
            for o in range(1, min(a, b) + 1):
                for m in measures:
                    for v in model.raw_scores(m, a, b, o):
                        vals.add(v)
                        vals.add(round(v, 4))
    out = set()
    for v in vals:
        for w in (v, nextafter(v, 0.0), nextafter(v, 2.0)):
            if 0 < w <= 1:
                out.add(w)
    return sorted(out)


# ----------------------------------------------------------------------------- W3 random tables

TOKENIZERS = [
    {'kind': 'ws'}, {'kind': 'delim', 'delims': [',']}, {'kind': 'delim', 'delims': [',', ';', ' ']},
    {'kind': 'qgram', 'q': 2, 'padding': True}, {'kind': 'qgram', 'q': 3, 'padding': True},
    {'kind': 'qgram', 'q': 2, 'padding': False}, {'kind': 'qgram', 'q': 3, 'padding': False},
    {'kind': 'qgram', 'q': 1, 'padding': True},
    {'kind': 'alpha'}, {'kind': 'alnum'},
    {'kind': 'ws', 'user': 'lower'}, {'kind': 'delim', 'delims': [','], 'user': 'strip'},   # user subclasses
    {'kind': 'qgram', 'q': 2, 'padding': True, 'user': 'lower'}, {'kind': 'ws', 'user': 'memo'},
    {'kind': 'ws', 'user': 'tolerant'},
    # pad characters other than '#' and '$' (the data may contain '#', '$', '^', '!')
    {'kind': 'qgram', 'q': 2, 'padding': True, 'prefix_pad': '^', 'suffix_pad': '!'},
    {'kind': 'qgram', 'q': 3, 'padding': True, 'prefix_pad': ' ', 'suffix_pad': ' '},
]

UNI = ['é', 'ß', '日本', 'ñ', 'Ω', '𝔘', 'ü', 'ж', 'e\u0301', 'İ', 'ǆ', 'ﬁ']      # incl. NFD 'é', case-folding oddities


def random_tokenizer(rng, qgram_only=False, allow_bag=True):
    pool = [t for t in TOKENIZERS if t['kind'] == 'qgram'] if qgram_only else TOKENIZERS
    spec = dict(rng.choice(pool))
    spec['return_set'] = (rng.random() < 0.6) if allow_bag else True
    return spec


# pairs of DISTINCT tokens that some normalisation identifies: canonical equivalence (NFC / NFD, the
# OHM / KELVIN / ANGSTROM signs), compatibility forms, trailing NUL characters (numpy's fixed-width
# strings strip them), case folding beyond ASCII, characters outside the BMP
CONFUSABLE = [('caf\u00e9', 'cafe\u0301'), ('\u2126', '\u03a9'), ('\u212b', '\u00c5'), ('K', '\u212a'),
              ('x', 'x\x00'), ('ab', 'ab\x00\x00'), ('fi', '\ufb01'), ('a', '\uff41'), ('ss', '\u00df'),
              ('i', '\u0131'), ('X', '\U0001d4b3'), ('e', 'e\u200b'), ('1', '\u00b9'), ('w\x00', 'z\x00'),
              # different tokens with the same CRC-32 / Adler-32 checksum (a checksum is not an identity)
              ('cdqyyl', 'ucvoibs'), ('vodzmkg', 'aatkfg'), ('aaca', 'abab'),
              # present strings that spell a missing value
              ('nan', 'None'), ('NaN', 'null'), ('NA', '<NA>'), ('none', 'nan')]


def _vocab(rng, size, unicode_rate=0.1):
    out = []
    for i in range(size):
        r = rng.random()
        if r < 0.05:
            out.extend(rng.choice(CONFUSABLE))
            continue
        if r < unicode_rate:
            out.append(rng.choice(UNI) + str(i))
        elif r < unicode_rate + 0.12 and out:
            # a token that differs from an earlier one only by letter case (distinct tokens!)
            w = rng.choice(out)
            out.append(w.upper() if w.upper() != w else w.lower())
        else:
            out.append(''.join(rng.choice('abcdefghAB') for _ in range(rng.randint(1, 3))) + str(i))
    return out


def random_value(rng, tok, vocab, zipf, max_tokens):
    """One present string value for the given tokenizer kind."""
    kind = tok['kind']
    r = rng.random()
    if kind in ('ws', 'delim', 'alpha', 'alnum'):
        if kind == 'ws':
            seps = [' ', '  ', '\t', '\n', ' \r\n']
        elif kind == 'delim':
            seps = list(tok.get('delims', [' ']))
        else:
            seps = [' ', '-', ', ', '!!']
        if r < 0.06:
            return ''
        if r < 0.075 and kind in ('ws', 'delim'):
            return rng.choice(['nan', 'None', 'NaN', 'nan', 'null', 'NA'])     # a present value, not a missing one
        if r < 0.10:
            return rng.choice(seps) * rng.randint(1, 3)        # delimiter-only
        if r < 0.125 and kind == 'delim' and ' ' not in seps:
            return rng.choice([' ', '  '])                     # one whitespace token, not empty
        if kind == 'alpha' and r < 0.13:
            return rng.choice(['123', '42 7', '...'])           # nothing alphabetic
        n = rng.randint(1, max_tokens)
        if rng.random() < 0.015:
            n = rng.randint(40, 120)            # a very long value
        toks = []
        for _ in range(n):
            if zipf:
                idx = min(len(vocab) - 1, int(rng.paretovariate(1.2)) - 1)
            else:
                idx = rng.randrange(len(vocab))
            w = vocab[idx]
            if kind == 'alpha':
                w = ''.join(c for c in w if c.isalpha() and ord(c) < 128) or 'z'
                w = w + 'qwrtzpl'[idx % 7] * (1 + idx // 7 % 3)
            elif kind == 'alnum':
                w = ''.join(c for c in w if c.isalnum() and ord(c) < 128) or 'z9'
            if kind == 'delim' and ' ' not in seps and rng.random() < 0.15:
                w = w + ' ' + rng.choice(vocab)          # one token containing a space
            toks.append(w)
        s = toks[0]
        for w in toks[1:]:
            s += rng.choice(seps) + w
        if rng.random() < 0.1:
            s = rng.choice(seps) + s
        if rng.random() < 0.1:
            s = s + rng.choice(seps)
        return s
    # q-gram tokenizers: character strings over a small alphabet
    q = tok.get('q', 2)
    if r < 0.06:
        return ''
    if r < 0.09:
        return rng.choice([' ', '  ', ' \t'])          # whitespace-only is NOT empty for q-grams
    if r < 0.14 and not tok.get('padding', True):
        return ''.join(rng.choice('ab') for _ in range(rng.randint(1, max(1, q - 1))))  # < q chars
    alpha = rng.choice(['ab', 'abc', 'abcde', 'ab#$', 'abé日', 'aAbB', 'ab ', 'ab\x00', 'e\u0301\u00e9', 'K\u212aa', 'a#$^!'])
    n = rng.randint(1, max(2, max_tokens))
    return ''.join(rng.choice(alpha) for _ in range(n))


def random_table_pair(rng, tok=None, max_rows=12, missing=0.1, dup_rate=0.2, extras=True,
                      key_kind=None, index_kind=None, max_tokens=8, vocab_size=None,
                      str_dtype=0.25):
    tok = tok or random_tokenizer(rng)
    vocab = _vocab(rng, vocab_size or rng.choice([4, 8, 20, 60]))
    zipf = rng.random() < 0.5
    out = []
    lcols_extra = ['lx_int', 'lx_str', 'lx_flt'] if extras else []
    rcols_extra = ['rx_str', 'rx_flt', 'rx_bool'] if extras else []
    if extras and rng.random() < 0.3:
        lcols_extra = lcols_extra + ['lx col!_str']            # not a valid Python identifier
        rcols_extra = rcols_extra + ['class', '1rx_int']
    if extras:
        # sometimes the tables hold nothing (or little) beyond the key and the join attribute, so that
        # a call can name every column of a table
        r = rng.random()
        if r < 0.12:
            lcols_extra, rcols_extra = [], []
        elif r < 0.24:
            lcols_extra, rcols_extra = [rng.choice(lcols_extra)], [rng.choice(rcols_extra)]
    key_kind = key_kind or rng.choice(['int', 'int_shuffled', 'str', 'int_sparse', 'numstr', 'float', 'neg', 'mixed', 'bigint', 'samehash'])
    pool_vals = [random_value(rng, tok, vocab, zipf, max_tokens) for _ in range(6)]
    for side, extra in (('l', lcols_extra), ('r', rcols_extra)):
        n = rng.choice([0, 1, 1, 2, 3, 5, 8, max_rows]) if rng.random() < 0.5 else \
            rng.randint(2, max_rows)
        vals = []
        for _ in range(n):
            r = rng.random()
            if r < missing:
                vals.append(None if rng.random() < 0.5 else NAN)
            elif r < missing + dup_rate and pool_vals:
                vals.append(rng.choice(pool_vals))
            else:
                vals.append(random_value(rng, tok, vocab, zipf, max_tokens))
        if key_kind == 'int':
            keys = list(range(n))
        elif key_kind == 'int_shuffled':
            keys = list(range(100, 100 + n))
            rng.shuffle(keys)
        elif key_kind == 'int_sparse':
            keys = rng.sample(range(-50, 1000), n)
        elif key_kind == 'numstr':      # strings that look like numbers; '1' and '01' are different keys
            pool = sorted(set(['%d' % k for k in range(12)] + ['%02d' % k for k in range(12)] +
                              ['%d.0' % k for k in range(6)]))
            keys = rng.sample(pool, n) if n <= len(pool) else ['%03d' % k for k in range(n)]
        elif key_kind == 'float':
            keys = [k + 0.5 for k in rng.sample(range(-20, 200), n)]
        elif key_kind == 'bigint':      # 64-bit ids that float64 cannot represent exactly
            keys = [2 ** 53 + 1 + 2 * k for k in rng.sample(range(500), n)]
        elif key_kind == 'mixed':       # ints and the strings that spell them are different keys
            pool = list(range(8)) + [str(k) for k in range(8)]
            keys = rng.sample(pool, n) if n <= len(pool) else list(range(n))
        elif key_kind == 'neg':
            keys = [-k for k in rng.sample(range(1, 10 ** 6), n)]
        elif key_kind == 'samehash':    # different ids with the same hash(): -1 / -2, k / k + 2**61 - 1
            pool = [-1, -2, 0, 1, 2, 3, 5, 2 ** 61 - 1, 2 ** 61, 2 ** 61 + 1, 2 ** 61 + 2, 2 ** 61 + 4,
                    -(2 ** 61), -(2 ** 61) - 1, 7, 2 ** 61 + 6]
            keys = rng.sample(pool, n) if n <= len(pool) else list(range(n))
        else:
            keys = ['%s%03d' % (side.upper(), k) for k in rng.sample(range(1000), n)]
        cols = [side + 'id', side + 'attr'] + list(extra)
        data = {side + 'id': keys, side + 'attr': vals}
        dtypes = {side + 'attr': 'str' if rng.random() < str_dtype else 'object'}
        if keys and all(isinstance(k, int) and abs(k) < 2 ** 31 for k in keys) and rng.random() < 0.15:
            dtypes[side + 'id'] = 'int32'
        for c in extra:
            if c.endswith('int'):
                data[c] = [rng.randint(-5, 5) for _ in range(n)]
                dtypes[c] = rng.choice(['int64', 'int64', 'int32'])
            elif c.endswith('flt'):
                data[c] = [NAN if rng.random() < 0.3 else rng.choice([0.5, 1.0, 2.25, -3.0])
                           for _ in range(n)]
                dtypes[c] = rng.choice(['float64', 'float64', 'float32'])
            elif c.endswith('bool'):
                data[c] = [rng.random() < 0.5 for _ in range(n)]
                dtypes[c] = 'bool'
            else:
                data[c] = [None if rng.random() < 0.2 else 'v%d' % rng.randint(0, 3)
                           for _ in range(n)]
                dtypes[c] = 'object'
        if rng.random() < 0.5:
            rng.shuffle(cols)
        if extra and rng.random() < 0.12:
            # a categorical column (declared categories that never occur) and, rarely, a very wide table
            c = side + 'x_cat_str'
            cols.insert(rng.randint(0, len(cols)), c)
            data[c] = [None if rng.random() < 0.2 else 'k%d' % rng.randint(0, 2) for _ in range(n)]
            dtypes[c] = 'category'
            if rng.random() < 0.3:
                for w in range(30):
                    cw = '%sw%02d_int' % (side, w)
                    cols.append(cw)
                    data[cw] = [w + i for i in range(n)]
                    dtypes[cw] = 'int64'
        if extra and rng.random() < 0.1:
            # twin labels: columns whose labels differ from an existing one only in case / surrounding
            # blanks are different columns
            c0 = rng.choice(list(extra))
            for c in rng.sample([c0.upper(), ' ' + c0 + ' ', c0.capitalize()], rng.randint(1, 2)):
                if c not in cols:
                    cols.insert(rng.randint(0, len(cols)), c)
                    data[c] = ['t%d_%s' % (i, c.strip()[:2]) for i in range(n)]
                    dtypes[c] = 'object'
        if extra and rng.random() < 0.08:
            # object cells that are not scalars for every tool: Decimal / Fraction (not exactly
            # representable as floats), tuples of length 1 and 2
            import decimal
            import fractions
            c = side + 'x_obj_str'
            cols.insert(rng.randint(0, len(cols)), c)
            pool = [decimal.Decimal('1.10'), decimal.Decimal('0.1'), fractions.Fraction(1, 3), ('x',), ('a', 'b'),
                    (1, 2), decimal.Decimal('2'), fractions.Fraction(7, 2), (), None]
            data[c] = [rng.choice(pool) for _ in range(n)]
            dtypes[c] = 'object'
        ik = index_kind or rng.choice(['range', 'range', 'shuffled', 'str', 'offset', 'dup', 'const', 'multi', 'float',
                                       'keyname'])
        if ik == 'range':
            index = None
        elif ik == 'dup':       # concat-style: labels restart (non-unique index)
            k = rng.randint(1, max(1, n))
            index = [i % k for i in range(n)]
        elif ik == 'const':
            index = [0] * n
        elif ik == 'shuffled':
            index = list(range(n))
            rng.shuffle(index)
        elif ik == 'offset':
            index = list(range(10, 10 + n))
        elif ik == 'multi':     # two-level row index (what groupby / set_index([a, b]) leave behind)
            index = [['g%d' % (i % 2), i // 2] for i in range(n)]
        elif ik == 'float':
            index = [i + 0.5 for i in range(n)]
        elif ik == 'keyname':   # A.set_index('id', drop=False): the row index is NAMED like the key column
            index = list(keys)
        else:
            index = ['r%d' % i for i in rng.sample(range(10 * n + 1), n)]
        out.append({'cols': cols, 'data': data, 'index': index, 'dtypes': dtypes})
        r = rng.random()
        if r < 0.04:
            out[-1]['frame_class'] = 'user'          # a DataFrame subclass instance
        elif r < 0.07:
            out[-1]['dup_label'] = rng.choice(['note', 'zz', side + 'dupe'])
        elif r < 0.11:
            out[-1]['no_duplicate_labels'] = True
        if ik == 'keyname':
            out[-1]['index_name'] = side + 'id'
    return out[0], out[1], tok


def random_out_attrs(rng, spec, key, attr):
    r = rng.random()
    others = [c for c in spec['cols']]
    if len(others) <= 4 and rng.random() < 0.3:
        # every remaining column, in an order of its own
        sel = [c for c in others if c not in (key, attr)]
        rng.shuffle(sel)
        return sel
    if r < 0.3:
        return None
    if r < 0.4:
        return []
    k = rng.randint(1, min(4, len(others)))
    sel = [rng.choice(others) for _ in range(k)]
    if rng.random() < 0.3:
        sel.append(key)
    if rng.random() < 0.3:
        sel.append(attr)
    if rng.random() < 0.3 and sel:
        sel.append(sel[0])
    for c in list(sel):
        # twin labels (see random_table_pair) are requested together with their twin
        for o in others:
            if o != c and isinstance(o, str) and isinstance(c, str) and o.strip().lower() == c.strip().lower() \
                    and o not in sel:
                sel.append(o)
    rng.shuffle(sel)
    return sel


def random_join_call(rng, api=None, tok=None, n_jobs_pool=(1, 1, 1, 2, 3), collide=False, **tkw):
    api = api or rng.choice(['jaccard_join', 'cosine_join', 'dice_join',
                             'overlap_coefficient_join', 'overlap_join'])
    many_jobs = rng.random() < 0.05
    if many_jobs:
        tkw = dict(tkw, max_rows=rng.choice([24, 40]))       # more rows than CPUs, more jobs than CPUs
    if api == 'edit_distance_join':
        tok = tok or random_tokenizer(rng, qgram_only=True)
    L, R, tok = random_table_pair(rng, tok=tok, **tkw)
    call = {'api': api, 'ltable': L, 'rtable': R, 'l_key': 'lid', 'r_key': 'rid',
            'l_attr': 'lattr', 'r_attr': 'rattr', 'tok': tok}
    if api == 'overlap_join':
        call['threshold'] = rng.choice([1, 1, 2, 2, 3, 4, 5, 1.5, 2.5, 2.0])
        call['comp_op'] = rng.choice(['>=', '>=', '>', '='])
    elif api == 'edit_distance_join':
        call['threshold'] = rng.choice([0, 1, 1, 2, 2, 3, 4])
        call['comp_op'] = rng.choice(['<=', '<=', '<', '='])
    else:
        call['threshold'] = random_threshold(rng)
        call['comp_op'] = rng.choice(['>=', '>=', '>', '='])
        call['allow_empty'] = rng.random() < 0.6
    call['allow_missing'] = rng.random() < 0.35
    call['l_out_attrs'] = random_out_attrs(rng, L, 'lid', 'lattr')
    call['r_out_attrs'] = random_out_attrs(rng, R, 'rid', 'rattr')
    if rng.random() < 0.3:
        call['l_out_prefix'] = rng.choice(['left_', 'L.', 'l_', '', 'ltable.', 'l.*', '(l)', '$l_', 'l%%', '50%_', '%s_', '{}_', '{0}', 'l\\1'])
        call['r_out_prefix'] = rng.choice(['right_', 'R.', 'r_', 'rtable.', 'r[', '^r+', 'r%%', '%(r)s_', '{r}_', 'r%d'])
    call['out_sim_score'] = rng.random() < 0.75
    call['n_jobs'] = rng.choice(list(n_jobs_pool))
    if rng.random() < 0.06:
        call['n_jobs'] = rng.choice([-1, -3, 20, 0])
    if many_jobs:
        call['n_jobs'] = rng.choice([17, 20, 33, 64])
    if rng.random() < 0.12:
        call['show_progress'] = True
    if rng.random() < 0.06:
        call['threshold_np'] = rng.choice([True, True, 'array0d'])       # a numpy scalar / 0-d array
    if rng.random() < 0.2:
        call['omit_defaults'] = True      # do not pass arguments that equal their default
    if rng.random() < 0.06:
        call['out_attrs_as'] = 'tuple'
    if rng.random() < 0.05:
        call['n_jobs_as'] = 'numpy'
    if call['threshold'] == 1.0 and rng.random() < 0.5:
        call['threshold'] = 1          # an int is a valid threshold too
    if rng.random() < 0.05 and 'colliding_labels' not in call:
        # the join attribute of one side (or both) is also its key attribute (string keys only)
        for spec, side in rng.choice([((L, 'l'),), ((R, 'r'),), ((L, 'l'), (R, 'r'))]):
            keys = spec['data'][side + 'id']
            if keys and all(isinstance(k, str) for k in keys):
                call[side + '_attr'] = side + 'id'
                call['join_on_key'] = True
    if collide and rng.random() < 0.04 and not call.get('join_on_key'):
        # both tables call their key 'id' and the caller passes the same prefix for both sides: two
        # output columns carry the same label; the documented order (left key, then right key) is
        # what tells them apart
        for spec, old in ((L, 'lid'), (R, 'rid')):
            spec['cols'] = ['id' if c == old else c for c in spec['cols']]
            spec['data']['id'] = spec['data'].pop(old)
            if old in spec['dtypes']:
                spec['dtypes']['id'] = spec['dtypes'].pop(old)
        call['l_key'] = call['r_key'] = 'id'
        for k, old in (('l_out_attrs', 'lid'), ('r_out_attrs', 'rid')):
            if call.get(k):
                call[k] = ['id' if a == old else a for a in call[k]]
        call['l_out_prefix'] = call['r_out_prefix'] = rng.choice(['t_', '', 'l_'])
        call['colliding_labels'] = True
    return call


# ----------------------------------------------------------------------------- candidate sets

def random_candset(rng, L, R, l_key, r_key, size=None, with_missing_ok=True, extra_cols=True,
                   index_kind=None):
    lk, rk = T.column(L, l_key), T.column(R, r_key)
    cross = [(a, b) for a in lk for b in rk]

    def representable(k):
        return isinstance(k, int) and not isinstance(k, bool) and float(k) == k and int(float(k)) == k
    float_side = None
    if rng.random() < 0.06:
        # one id column will be float64 (ids read from a csv with a missing cell somewhere): only rows
        # whose id on that side is exactly representable are referenced, so every value still
        # identifies one key (2**61 does; the table may also hold 2**61 + 1)
        float_side = rng.choice([0, 1])
        cross = [p for p in cross if representable(p[float_side])]
    if not cross:
        pairs = []
    else:
        if size is None:
            size = rng.choice([0, 1, 2, len(cross) // 2, len(cross), 2 * len(cross)])
        r = rng.random()
        if r < 0.4 and size <= len(cross):
            pairs = rng.sample(cross, size)
        else:
            pairs = [rng.choice(cross) for _ in range(size)]
    n = len(pairs)
    ids = list(range(n))
    r = rng.random()
    if r < 0.3:
        ids = rng.sample(range(1000), n)
    elif r < 0.4:
        ids = [i * 3 + 7 for i in range(n)]
    cols = ['_id', 'l_' + l_key, 'r_' + r_key]
    data = {'_id': ids, cols[1]: [p[0] for p in pairs], cols[2]: [p[1] for p in pairs]}
    dtypes = {}
    if extra_cols and rng.random() < 0.5:
        cols.append('note')
        data['note'] = ['n%d' % rng.randint(0, 5) for _ in range(n)]
        dtypes['note'] = 'object'
    if extra_cols and rng.random() < 0.3:
        cols.append('hint')                       # a float column next to integer ids
        data['hint'] = [rng.random() for _ in range(n)]
        dtypes['hint'] = 'float64'
    if extra_cols and n:
        # the key columns are named, not positioned: right key before left key, a column in between
        r = rng.random()
        if r < 0.12:
            cols = [cols[0], cols[2], cols[1]] + cols[3:]
        elif r < 0.2:
            cols = [cols[0], cols[1], 'mid', cols[2]] + cols[3:]
            data['mid'] = [rng.randint(0, 9) for _ in range(n)]
    ik = index_kind or rng.choice(['range', 'shuffled', 'str', 'offset', 'dup', 'dup', 'const'])
    if ik == 'range' or n == 0:
        index = None
    elif ik == 'dup':           # what pd.concat of per-job filter results looks like: labels restart
        k = rng.randint(1, max(1, n // 2))
        index = [i % k for i in range(n)]
    elif ik == 'const':
        index = [7] * n
    elif ik == 'shuffled':
        index = list(range(n))
        rng.shuffle(index)
    elif ik == 'offset':
        index = list(range(5, 5 + n))
    else:
        index = ['c%d' % i for i in rng.sample(range(10 * n + 1), n)]
    if n == 0:
        dtypes.update({'_id': 'int64', 'l_' + l_key: 'object', 'r_' + r_key: 'object'})
    else:
        # key columns whose dtype differs from the tables' key dtype while the values match
        for c, keys in (('l_' + l_key, lk), ('r_' + r_key, rk)):
            r = rng.random()
            used = data[c]
            if used and float_side is not None and c == cols[1 + float_side] and all(representable(k) for k in used):
                # a float64 id column (ids read from a csv with a missing cell somewhere): every id it
                # holds is exactly representable, so the value identifies the key (2**61 is; its
                # neighbour 2**61 + 1 in the table is another key)
                dtypes[c] = 'float64'
            elif all(isinstance(k, int) and not isinstance(k, bool) and abs(k) < 2 ** 31 for k in keys):
                if r < 0.2:
                    dtypes[c] = 'int32'
                elif r < 0.3:
                    dtypes[c] = 'object'
            elif all(isinstance(k, int) and not isinstance(k, bool) and k >= 0 for k in keys) and r < 0.4:
                dtypes[c] = 'uint64'               # same values, other integer dtype than the table key
            elif all(isinstance(k, str) for k in keys):
                dtypes[c] = 'str' if r < 0.4 else 'object'
    return {'cols': cols, 'data': data, 'index': index, 'dtypes': dtypes}


# ----------------------------------------------------------------------------- W2r random arrangements

def random_arrangement_tables(rng, measure, threshold, n_groups=150, max_size=16, op='>='):
    """Mid-size sets with the least qualifying overlap and a RANDOM interleaving of x-only / y-only /
    shared tokens in the global order (realised like arrangement_tables: a filler row equalises all
    token frequencies, the alphabetical tie-break fixes the ranks)."""
    lrows, rrows, meta = [], [], []
    gid = 0
    tries = 0
    while gid < n_groups and tries < n_groups * 20:
        tries += 1
        a, b = rng.randint(1, max_size), rng.randint(1, max_size)
        o = model.min_required_overlap(measure, threshold, a, b, op)
        if o is None:
            continue
        if rng.random() < 0.2:
            o = min(min(a, b), o + 1)
        items = ['X'] * (a - o) + ['Y'] * (b - o) + ['S'] * o
        style = rng.random()
        if style < 0.5:
            rng.shuffle(items)
        elif style < 0.65:
            items.sort(key=lambda k: 'SXY'.index(k))          # shared first
        elif style < 0.8:
            items.sort(key=lambda k: 'XYS'.index(k))          # shared last
        else:
            # shared tokens spread evenly
            rest = [k for k in items if k != 'S']
            rng.shuffle(rest)
            out, step = [], (len(rest) + 1.0) / (o + 1)
            si = 0
            for i, k in enumerate(rest):
                while si < o and (si + 1) * step <= i + 1e-9:
                    out.append('S')
                    si += 1
                out.append(k)
            out.extend(['S'] * (o - si))
            items = out
        g = 'g%05d' % gid
        names = ['%sp%03d' % (g, i) for i in range(len(items))]
        x = [n for n, k in zip(names, items) if k in 'XS']
        y = [n for n, k in zip(names, items) if k in 'YS']
        fill = [n for n, k in zip(names, items) if k in 'XY']
        rng.shuffle(x)
        rng.shuffle(y)
        lrows.append([2 * gid, ' '.join(x)])
        rrows.append([gid, ' '.join(y)])
        if fill:
            lrows.append([2 * gid + 1, ' '.join(fill)])
        meta.append((a, b, o, ''.join(items)))
        gid += 1
    L = T.table_spec(['id', 's'], lrows, dtypes={'s': 'object'})
    R = T.table_spec(['id', 's'], rrows, dtypes={'s': 'object'})
    return L, R, meta


def spell(rng, measure):
    """The filter constructors accept the measure name in any case."""
    r = rng.random()
    if r < 0.6:
        return measure
    if r < 0.8:
        return measure.lower()
    if r < 0.9:
        return measure.title()
    return ''.join(c.lower() if i % 2 else c for i, c in enumerate(measure))
