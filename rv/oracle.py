"""Boundary oracles for join / filter_tables outputs, built on the reference model."""
from collections import Counter, defaultdict

from rv import model
from rv import tables as T

RATIO = ('JACCARD', 'COSINE', 'DICE', 'OVERLAP_COEFFICIENT')


class TableView(object):
    """Model-side view of one call's two tables: keys, values, fresh token sets/bags."""

    def __init__(self, call, bag=False):
        L, R = call['ltable'], call['rtable']
        self.call = call
        self.lkeys = [model.canon_cell(k) for k in T.column(L, call['l_key'])]
        self.rkeys = [model.canon_cell(k) for k in T.column(R, call['r_key'])]
        self.lvals = list(T.column(L, call['l_attr']))
        self.rvals = list(T.column(R, call['r_attr']))
        self.lmiss = [model.is_missing(v) for v in self.lvals]
        self.rmiss = [model.is_missing(v) for v in self.rvals]
        tok = call.get('tok') or {'kind': 'qgram', 'q': 2}
        self.bag = bag
        conv = (lambda x: list(x)) if bag else (lambda x: frozenset(x))
        self.ltoks = [None if m else conv(T.model_tokens(tok, v, as_set=not bag))
                      for v, m in zip(self.lvals, self.lmiss)]
        self.rtoks = [None if m else conv(T.model_tokens(tok, v, as_set=not bag))
                      for v, m in zip(self.rvals, self.rmiss)]
        self.lpos = dict((k, i) for i, k in enumerate(self.lkeys))
        self.rpos = dict((k, i) for i, k in enumerate(self.rkeys))
        self._ov = None

    def overlaps(self):
        """{(i, j): |X∩Y|} for all present pairs sharing at least one token (set semantics)."""
        if self._ov is None:
            inv = defaultdict(list)
            for i, ts in enumerate(self.ltoks):
                if ts:
                    for t in set(ts):
                        inv[t].append(i)
            ov = Counter()
            for j, ts in enumerate(self.rtoks):
                if ts:
                    for t in set(ts):
                        for i in inv.get(t, ()):
                            ov[(i, j)] += 1
            self._ov = ov
        return self._ov

    def empties(self):
        le = [i for i, ts in enumerate(self.ltoks) if ts is not None and len(ts) == 0]
        re_ = [j for j, ts in enumerate(self.rtoks) if ts is not None and len(ts) == 0]
        return le, re_

    def missing_pairs(self):
        out = set()
        nl, nr = len(self.lkeys), len(self.rkeys)
        for i in range(nl):
            if self.lmiss[i]:
                for j in range(nr):
                    out.add((i, j))
        for j in range(nr):
            if self.rmiss[j]:
                for i in range(nl):
                    out.add((i, j))
        return out


def result_pairs(df, call, view):
    """[(i, j, rowdict)] for each output row; unknown keys give i or j = None."""
    lp = call.get('l_out_prefix', 'l_') + call['l_key']
    rp = call.get('r_out_prefix', 'r_') + call['r_key']
    cols = list(df.columns)
    li, ri = cols.index(lp), cols.index(rp)
    if lp == rp:
        ri = [k for k, c in enumerate(cols) if c == rp][1]
    si = cols.index('_sim_score') if '_sim_score' in cols else None
    out = []
    for row in df.itertuples(index=False, name=None):
        lk, rk = model.canon_cell(row[li]), model.canon_cell(row[ri])
        out.append((view.lpos.get(lk), view.rpos.get(rk), row[si] if si is not None else None,
                    lk, rk))
    return out


def check_set_join(df, call, measure, rec, decide, view=None, case=None, tag=''):
    """Check one set-similarity join / OverlapFilter result against the model.

    decide: set of oracle names that may produce violations:
       'complete' (C01), 'sound' 'once' 'score' 'keys' (C02), 'empty' (C09), 'missing' (C08)
    Returns a stats dict.
    """
    view = view or TableView(call)
    op = call.get('comp_op', '>=')
    t = call['threshold']
    allow_empty = call.get('allow_empty', True) if measure != 'OVERLAP' else False
    allow_missing = call.get('allow_missing', False)
    want_score = call.get('out_sim_score', True) and '_sim_score' in df.columns
    rows = result_pairs(df, call, view)
    ov = view.overlaps()
    stats = Counter()
    seen = Counter()
    got = set()
    for (i, j, score, lk, rk) in rows:
        if i is None or j is None:
            if 'keys' in decide:
                rec.violation('keys', '%soutput row names unknown key pair (%r, %r)' % (tag, lk, rk),
                              case=case)
            continue
        seen[(i, j)] += 1
        got.add((i, j))
    if 'once' in decide:
        for (i, j), n in seen.items():
            if n > 1:
                rec.violation('once', '%skey pair (%r, %r) occurs %d times' %
                              (tag, view.lkeys[i], view.rkeys[j], n), case=case)
    miss = view.missing_pairs()
    le, re_ = view.empties()
    both_empty = set((i, j) for i in le for j in re_)
    # ---------------- rows that are present
    for (i, j, score, lk, rk) in rows:
        if i is None or j is None:
            continue
        if (i, j) in miss:
            stats['rows_missing'] += 1
            if 'missing' in decide:
                if not allow_missing:
                    rec.violation('missing', '%sallow_missing=False but pair (%r, %r) with a '
                                  'missing value is in the output' % (tag, lk, rk), case=case)
                elif want_score and not model.is_missing(score):
                    rec.violation('missing', '%smissing-value pair (%r, %r) has score %r, not NaN'
                                  % (tag, lk, rk, score), case=case)
            continue
        a, b = len(view.ltoks[i]), len(view.rtoks[j])
        if (i, j) in both_empty:
            stats['rows_both_empty'] += 1
            if 'empty' in decide and not allow_empty:
                rec.violation('empty', '%sboth-empty pair (%r, %r) returned although it must not '
                              'be (allow_empty=%r, measure %s)' % (tag, lk, rk,
                              call.get('allow_empty', True), measure), case=case)
            elif ('empty' in decide or 'score' in decide) and allow_empty and want_score and \
                    not (score == 1.0):
                rec.violation('empty_score', '%sadmitted empty-empty pair (%r, %r) has score %r, not 1.0'
                              % (tag, lk, rk, score), case=case)
            continue
        o = ov.get((i, j), 0)
        cls = model.classify(measure, op, t, a, b, o)
        stats['rows_' + cls] += 1
        if cls == model.FORBIDDEN and 'sound' in decide:
            rec.violation('sound', '%spair (%r, %r) returned but %s(|X|=%d,|Y|=%d,|X∩Y|=%d)=%r does '
                          'not satisfy %s %r' % (tag, lk, rk, measure, a, b, o,
                          model.score_candidates(measure, a, b, o) if a and b else 0.0, op, t),
                          case=case, witness={'l': view.lvals[i], 'r': view.rvals[j]})
        if want_score and 'score' in decide and a and b:
            cands = model.score_candidates(measure, a, b, o)
            if not any(_same_number(score, c) for c in cands):
                rec.violation('score', '%spair (%r, %r): _sim_score %r, expected one of %r '
                              '(|X|=%d,|Y|=%d,|X∩Y|=%d)' % (tag, lk, rk, score, cands, a, b, o),
                              case=case, witness={'l': view.lvals[i], 'r': view.rvals[j]})
            stats['scores_checked'] += 1
            if cands and abs(cands[0] - t) < 1e-9:
                stats['rows_at_threshold'] += 1
    # ---------------- rows that must be present
    if 'complete' in decide:
        for (i, j), o in ov.items():
            a, b = len(view.ltoks[i]), len(view.rtoks[j])
            cls = model.classify(measure, op, t, a, b, o)
            if cls == model.REQUIRED:
                stats['required'] += 1
                mo = model.min_required_overlap(measure, t, a, b, op) if op == '>=' else None
                if mo is not None and o == mo:
                    stats['required_tight'] += 1
                if (i, j) not in got:
                    rec.violation('complete', '%squalifying pair (%r, %r) missing: %s(|X|=%d,|Y|=%d,'
                                  '|X∩Y|=%d)=%r satisfies %s %r' % (
                                      tag, view.lkeys[i], view.rkeys[j], measure, a, b, o,
                                      model.score_candidates(measure, a, b, o), op, t),
                                  case=case, witness={'l': view.lvals[i], 'r': view.rvals[j],
                                                      'a': a, 'b': b, 'o': o})
            elif cls == model.ALLOWED:
                stats['straddling'] += 1
    if 'empty' in decide:
        for (i, j) in both_empty:
            stats['both_empty_pairs'] += 1
            if allow_empty and (i, j) not in got:
                rec.violation('empty', '%sallow_empty=True but both-empty pair (%r, %r) is missing '
                              '(measure %s, %s %r)' % (tag, view.lkeys[i], view.rkeys[j], measure,
                                                         op, t), case=case)
    if 'missing' in decide and allow_missing:
        for (i, j) in miss:
            stats['missing_pairs'] += 1
            if seen.get((i, j), 0) != 1:
                rec.violation('missing', '%sallow_missing=True: pair (%r, %r) with a missing value '
                              'occurs %d times, expected once' % (
                                  tag, view.lkeys[i], view.rkeys[j], seen.get((i, j), 0)), case=case)
    return stats


def _same_number(x, y):
    try:
        return float(x) == float(y)
    except Exception:
        return False


def expected_columns(call, score_default=True, has_score_option=True):
    """Independent implementation of the documented column rule."""
    lp, rp = call.get('l_out_prefix', 'l_'), call.get('r_out_prefix', 'r_')

    def dedup(attrs, key):
        out = []
        for a in attrs or []:
            if a == key or a in out:
                continue
            out.append(a)
        return out
    cols = ['_id', lp + call['l_key'], rp + call['r_key']]
    cols += [lp + a for a in dedup(call.get('l_out_attrs'), call['l_key'])]
    cols += [rp + a for a in dedup(call.get('r_out_attrs'), call['r_key'])]
    if has_score_option and call.get('out_sim_score', score_default):
        cols.append('_sim_score')
    return cols


def check_ids(df, rec, case=None, tag=''):
    if '_id' in df.columns:
        ids = df['_id'].tolist()
        if ids != list(range(len(df))):
            rec.violation('ids', '%s_id column is %r..., expected 0..%d' % (tag, ids[:8], len(df) - 1),
                          case=case)
            return False
    return True


# ----------------------------------------------------------------------------- edit distance

class EditView(object):
    """Model view for edit_distance_join: present strings, q-gram bags, cached distance matrix."""

    def __init__(self, call):
        self.view = TableView(call, bag=True)
        self.dist = {}

    def distance(self, i, j):
        d = self.dist.get((i, j))
        if d is None:
            d = model.levenshtein(self.view.lvals[i], self.view.rvals[j])
            self.dist[(i, j)] = d
        return d

    def retokenize(self, call):
        v = TableView(call, bag=True)
        self.view = v


def check_edit_join(df, call, rec, decide, ev, case=None, tag=''):
    """decide ⊆ {'sound','once','score','keys','complete','missing'}"""
    view = ev.view
    op = call.get('comp_op', '<=')
    fn = model.OPS[op]
    k = call['threshold']
    allow_missing = call.get('allow_missing', False)
    want_score = call.get('out_sim_score', True) and '_sim_score' in df.columns
    rows = result_pairs(df, call, view)
    stats = Counter()
    seen = Counter()
    for (i, j, score, lk, rk) in rows:
        if i is None or j is None:
            if 'keys' in decide:
                rec.violation('keys', '%soutput row names unknown key pair (%r, %r)' % (tag, lk, rk),
                              case=case)
            continue
        seen[(i, j)] += 1
    if 'once' in decide:
        for (i, j), n in seen.items():
            if n > 1:
                rec.violation('once', '%skey pair (%r, %r) occurs %d times' %
                              (tag, view.lkeys[i], view.rkeys[j], n), case=case)
    miss = view.missing_pairs()
    for (i, j, score, lk, rk) in rows:
        if i is None or j is None:
            continue
        if (i, j) in miss:
            stats['rows_missing'] += 1
            if 'missing' in decide:
                if not allow_missing:
                    rec.violation('missing', '%sallow_missing=False but pair (%r, %r) with a missing '
                                  'value is in the output' % (tag, lk, rk), case=case)
                elif want_score and not model.is_missing(score):
                    rec.violation('missing', '%smissing-value pair (%r, %r) has score %r, not NaN'
                                  % (tag, lk, rk, score), case=case)
            continue
        d = ev.distance(i, j)
        stats['rows_checked'] += 1
        if not fn(d, k) and 'sound' in decide:
            rec.violation('sound', '%spair (%r, %r) returned but levenshtein(%r, %r)=%d does not '
                          'satisfy %s %r' % (tag, lk, rk, view.lvals[i], view.rvals[j], d, op, k),
                          case=case)
        if want_score and 'score' in decide and not _same_number(score, d):
            rec.violation('score', '%spair (%r, %r): _sim_score %r but levenshtein(%r, %r)=%d'
                          % (tag, lk, rk, score, view.lvals[i], view.rvals[j], d), case=case)
    if 'complete' in decide:
        kk = int(k)
        for i, lt in enumerate(view.ltoks):
            if lt is None:
                continue
            ls = view.lvals[i]
            lset = set(lt)
            for j, rt in enumerate(view.rtoks):
                if rt is None:
                    continue
                rs = view.rvals[j]
                if abs(len(ls) - len(rs)) > kk:
                    continue
                d = ev.distance(i, j)
                if not fn(d, k):
                    continue
                stats['within'] += 1
                if lset.isdisjoint(rt):
                    stats['within_no_common_qgram'] += 1      # the documented gap
                    if (i, j) in seen:
                        stats['gap_pairs_returned_anyway'] += 1
                    continue
                stats['required'] += 1
                if (i, j) not in seen:
                    rec.violation('complete', '%squalifying pair (%r, %r) missing: levenshtein(%r, %r)'
                                  '=%d satisfies %s %r and the q-gram bags intersect (%s)'
                                  % (tag, view.lkeys[i], view.rkeys[j], ls, rs, d, op, k,
                                     sorted(lset & set(rt))[:3]), case=case,
                                  witness={'l': ls, 'r': rs, 'd': d})
    if 'missing' in decide and allow_missing:
        for (i, j) in miss:
            stats['missing_pairs'] += 1
            if seen.get((i, j), 0) != 1:
                rec.violation('missing', '%sallow_missing=True: pair (%r, %r) with a missing value '
                              'occurs %d times, expected once' % (
                                  tag, view.lkeys[i], view.rkeys[j], seen.get((i, j), 0)), case=case)
    return stats
