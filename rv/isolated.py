"""One API call in a process of its own:  python -m rv.isolated <call.json>  -> prints the digest.

The reference for 'the same call made in isolation' when state might live in the library's modules
(where an in-process re-run on fresh objects would share it)."""
import json
import sys


def main():
    with open(sys.argv[1]) as f:
        job = json.load(f)
    from rv import env
    ssj = env.load()
    from rv import tables as T
    from rv.checks import c12
    T.WARM_RATE = 0
    T.LOKY_SAMPLE = 0
    try:
        res = T.exec_call(ssj, job['call'])
        out = {'digest': repr(c12.result_digest(res))}
    except Exception as e:
        out = {'raised': '%s: %s' % (type(e).__name__, str(e)[:200])}
    sys.stdout.write('\nRV-ISOLATED ' + json.dumps(out) + '\n')


if __name__ == '__main__':
    main()
