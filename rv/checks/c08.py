"""C08 -- missing join values are handled exactly as allow_missing says.

Deciding oracles (boundary): with allow_missing=False no output row of a join / filter_tables touches
a row whose join value is missing and filter_pair / filter_candset / apply_matcher drop such pairs;
with allow_missing=True every pair with a missing side is present exactly once (NaN score where a
score column exists) and the part of the result over present values equals the allow_missing=False
result of the otherwise identical call (metamorphic); the call returns normally for every
distribution of missing values."""
import random

from rv import env, gen, model, monitors, oracle
from rv import tables as T

PROPERTY = 'C08'
LEVEL = 'exploration'
RULE = ('cases = (entry point, missing pattern, None/NaN, dtype, score column, output attributes, '
        'n_jobs) on seeded random tables; patterns none / left only / right only / both / all left / '
        'all right / all both are enumerated systematically for every entry point (6 joins, 5 '
        'filter_tables, filter_pair, filter_candset, apply_matcher). Each case runs the call with '
        'allow_missing False and True; mv_big shards use 45-129 rows per side (missing cross products '
        'beyond 2**11 and 2**13 rows); in 12 % of the cases the join attribute is also the key of the '
        'side without missing values. Non-trivial = at least one row is missing on some side; '
        'distinct = (entry point, pattern, seed).')
ASSUMPTIONS = ['py_stringmatching tokenizers are trusted']
SHARD_TIMEOUT = {'quick': 600, 'thorough': 3600}

PATTERNS = ['none', 'left', 'right', 'both', 'all_left', 'all_right', 'all_both', 'one_left',
            'one_right']
ENTRY = ['jaccard_join', 'cosine_join', 'dice_join', 'overlap_coefficient_join', 'overlap_join',
         'edit_distance_join', 'ft:SizeFilter', 'ft:PrefixFilter', 'ft:PositionFilter',
         'ft:SuffixFilter', 'ft:OverlapFilter', 'filter_pair', 'filter_candset', 'apply_matcher']

ANCHORS = {
    'missing.loop_left': ('py_stringsimjoin/utils/missing_value_handler.py', r'for r_row in rtable.itertuples'),
    'missing.loop_right': ('py_stringsimjoin/utils/missing_value_handler.py', r'for l_row in ltable_not_missing.itertuples'),
    'missing.score_nan': ('py_stringsimjoin/utils/missing_value_handler.py', r'output_row.append\(np.NaN\)'),
    'helper.dropna': ('py_stringsimjoin/utils/generic_helper.py', r'dropna\(axis=0'),
    'matcher.missing_drop': ('py_stringsimjoin/matcher/apply_matcher.py', r'^\s+continue\s*$'),
}


def plan(tier, seed):
    reps = 40 if tier == 'quick' else 400
    combos = [(e, p) for e in ENTRY for p in PATTERNS]
    shards = []
    nsh = 14
    for i in range(nsh):
        shards.append({'name': 'mv_%d' % i, 'kind': 'mv', 'combos': combos[i::nsh], 'reps': reps,
                       'seed': seed * 1000 + 100 + i})
    big = [(e, p) for e in ENTRY if e in T.JOINS or e.startswith('ft:')
           for p in ('both', 'left', 'right', 'all_left', 'all_right', 'all_both')]
    nb = 6
    for i in range(nb):
        shards.append({'name': 'mv_big_%d' % i, 'kind': 'mv', 'combos': big[i::nb], 'big': True,
                       'reps': 1 if tier == 'quick' else 6, 'seed': seed * 1000 + 300 + i})
    return shards


def apply_pattern(rng, spec, attr, pattern, side):
    vals = list(spec['data'][attr])
    n = len(vals)
    na = lambda: None if rng.random() < 0.5 else gen.NAN

    def present():
        return rng.choice(['a b', 'a b c', 'b c d', 'x', '', 'a'])
    vals = [present() if model.is_missing(v) else v for v in vals]
    touch = False
    if pattern == 'both' or pattern == side:
        touch = 'some'
    elif pattern == 'all_both' or pattern == 'all_' + side:
        touch = 'all'
    elif pattern == 'one_' + side:
        touch = 'one'
    if touch == 'some' and n:
        k = rng.randint(1, max(1, n // 2))
        for i in rng.sample(range(n), k):
            vals[i] = na()
    elif touch == 'all':
        vals = [na() for _ in vals]
    elif touch == 'one' and n:
        vals[rng.randrange(n)] = na()
    spec = dict(spec)
    spec['data'] = dict(spec['data'])
    spec['data'][attr] = vals
    return spec


def big_tables(rng, tok):
    """Tables whose missing-value cross product has thousands of rows (it crosses every power of two
    up to 2**14: buffers, block-wise output, 16-bit counters)."""
    out = []
    pool = ['a b', 'a b c', 'b c d', 'x y', 'abcd', 'bcde', 'ab', 'c d e f']
    for side in 'lr':
        n = rng.choice([45, 64, 70, 100, 129])
        keys = rng.sample(range(10 * n), n)
        out.append({'cols': [side + 'id', side + 'attr', side + 'x_str'],
                    'data': {side + 'id': keys, side + 'attr': [rng.choice(pool) for _ in range(n)],
                             side + 'x_str': ['v%d' % (i % 7) for i in range(n)]},
                    'index': None if rng.random() < 0.6 else [i % 9 for i in range(n)],
                    'dtypes': {side + 'attr': 'object', side + 'x_str': 'object'}})
    return out[0], out[1], tok


def make_call(rng, entry, pattern, str_dtype=False, big=False):
    ed = entry == 'edit_distance_join'
    tok = gen.random_tokenizer(rng, qgram_only=ed)
    if big:
        L, R, tok = big_tables(rng, tok)
    else:
        L, R, tok = gen.random_table_pair(rng, tok=tok, max_rows=7, missing=0.0)
    # guarantee at least one row per side so that every pattern can materialise
    for spec, side in ((L, 'l'), (R, 'r')):
        if T.spec_len(spec) == 0:
            for c in spec['cols']:
                dt = spec['dtypes'].get(c)
                spec['data'][c].append(1 if c.endswith('id') else ('a b' if c.endswith('attr') else
                                       (0 if str(dt).startswith('int') else (0.5 if str(dt).startswith('float') else
                                        (True if dt == 'bool' else 'v')))))
            if c.endswith('id') and isinstance(spec['data'][side + 'id'][0], int) is False:
                pass
            spec['index'] = None
    L = apply_pattern(rng, L, 'lattr', pattern, 'left')
    R = apply_pattern(rng, R, 'rattr', pattern, 'right')
    if str_dtype:
        L['dtypes'] = dict(L['dtypes'], lattr='str')
        R['dtypes'] = dict(R['dtypes'], rattr='str')
    lkey, rkey = 'lid', 'rid'
    if rng.random() < 0.12:
        # the join attribute of one side is also its key attribute (possible only where the side
        # holds no missing value: a key has none)
        side = rng.choice(['l', 'r'])
        spec = L if side == 'l' else R
        vals = spec['data'][side + 'attr']
        if vals and not any(model.is_missing(v) for v in vals):
            spec['data'][side + 'attr'] = ['%s k%d' % (v.replace('\x00', ''), i) for i, v in enumerate(vals)]
            if side == 'l':
                lkey = 'lattr'
            else:
                rkey = 'rattr'
    call = {'ltable': L, 'rtable': R, 'l_key': lkey, 'r_key': rkey, 'l_attr': 'lattr',
            'r_attr': 'rattr', 'tok': tok, 'n_jobs': rng.choice([1, 1, 2, 3]),
            'l_out_attrs': gen.random_out_attrs(rng, L, lkey, 'lattr'),
            'r_out_attrs': gen.random_out_attrs(rng, R, rkey, 'rattr'),
            'out_sim_score': rng.random() < 0.7}
    if rng.random() < 0.06:
        call['show_progress'] = True
    if rng.random() < 0.25:
        # (an empty prefix is valid: the key names of the two tables differ)
        call['l_out_prefix'], call['r_out_prefix'] = rng.choice([('', 'r_'), ('l_', ''), ('', ''), ('left.', 'right.'),
                                                                 ('l%', 'r%%')])
    if entry in T.JOINS:
        call['api'] = entry
        if entry == 'overlap_join':
            call['threshold'] = rng.choice([1, 2, 1.5])
            call['comp_op'] = rng.choice(['>=', '>=', '>', '='])
        elif ed:
            call['threshold'] = rng.choice([0, 1, 2, 3])
            call['comp_op'] = rng.choice(['<=', '<', '='])
        else:
            call['threshold'] = gen.random_threshold(rng) if not big else rng.choice([0.5, 0.8, 1.0])
            call['allow_empty'] = rng.random() < 0.5
            call['comp_op'] = rng.choice(['>=', '>=', '>', '='])
            if rng.random() < 0.15:
                call['threshold'] = rng.choice([1, 1.0])        # nothing can exceed it: '>' returns no scored pair
    else:
        kind = entry[3:] if entry.startswith('ft:') else rng.choice(T.FILTERS)
        if kind == 'OverlapFilter':
            f = {'kind': kind, 'overlap_size': rng.choice([1, 2]), 'comp_op': rng.choice(['>=', '>', '='])}
        else:
            m = rng.choice(['JACCARD', 'COSINE', 'DICE', 'OVERLAP'])
            f = {'kind': kind, 'measure': m, 'allow_empty': rng.random() < 0.5,
                 'measure_spelling': gen.spell(rng, m),
                 'threshold': rng.choice([1, 2, 1.0, 1.5]) if m == 'OVERLAP' else
                 (gen.random_threshold(rng) if not big else rng.choice([0.5, 0.8, 1.0]))}
        if rng.random() < 0.25:
            f['allow_missing_via_attr'] = True      # flt.allow_missing = ... after construction
        call['filter'] = f
        if entry.startswith('ft:'):
            call['api'] = 'filter_tables'
        elif entry == 'filter_pair':
            call['api'] = 'filter_pair'
        elif entry == 'filter_candset':
            call['api'] = 'filter_candset'
            call['candset'] = gen.random_candset(rng, L, R, lkey, rkey,
                                                 size=rng.choice([1, 3, 8, 20]))
            call['c_l_key'], call['c_r_key'] = 'l_' + lkey, 'r_' + rkey
        elif entry == 'apply_matcher':
            call['api'] = 'apply_matcher'
            call['candset'] = gen.random_candset(rng, L, R, lkey, rkey,
                                                 size=rng.choice([1, 3, 8, 20, 40]))
            call['c_l_key'], call['c_r_key'] = 'l_' + lkey, 'r_' + rkey
            call['sim'] = rng.choice(['JACCARD', 'OVERLAP', 'user_len_diff', 'user_tversky', 'user_bound'])
            call['threshold'] = rng.choice([0, 0.3, 0.5, 1])
            call['comp_op'] = rng.choice(['>=', '>', '<=', '<', '=', '!='])
            call.pop('filter')
            if rng.random() < 0.25 and lkey == 'lid' and rkey == 'rid':
                # match attributes that are numbers (prices, years): present values stay present,
                # the rows the pattern marked missing become NaN; compared by a user function, no tokenizer
                for spec, a in ((L, 'lattr'), (R, 'rattr')):
                    spec['data'][a] = [gen.NAN if model.is_missing(v) else float(len(v) % 5) + 0.5
                                       for v in spec['data'][a]]
                    spec['dtypes'][a] = rng.choice(['float64', 'float32'])
                call['tok'] = None
                call['sim'] = 'user_numdiff'
                call['threshold'] = rng.choice([0, 1, 2.5])
    if 'filter' not in call and rng.random() < 0.3:
        call['np_flag'] = True
    return call


def with_missing(call, flag):
    c = dict(call)
    if call.get('np_flag') and 'filter' not in c:
        # a truthy / falsy flag computed from data (numpy bool) instead of the literal True / False
        import numpy as np
        flag = np.bool_(flag)
    if 'filter' in c:
        c['filter'] = dict(c['filter'], allow_missing=flag)
    else:
        c['allow_missing'] = flag
    return c


def run_case(case, rec, ssj=None):
    ssj = ssj or env.load()
    rng = random.Random(case['seed'])
    entry, pattern = case['entry'], case['pattern']
    call = make_call(rng, entry, pattern, str_dtype=case.get('str_dtype', False), big=case.get('big', False))
    api = call['api']
    L, R = call['ltable'], call['rtable']
    lvals, rvals = L['data']['lattr'], R['data']['rattr']
    lk = [model.canon_cell(k) for k in L['data'][call['l_key']]]
    rk = [model.canon_cell(k) for k in R['data'][call['r_key']]]
    lmiss = dict((k, model.is_missing(v)) for k, v in zip(lk, lvals))
    rmiss = dict((k, model.is_missing(v)) for k, v in zip(rk, rvals))
    n_missing = sum(lmiss.values()) + sum(rmiss.values())
    tag = '%s pattern=%s ' % (entry, pattern)
    info = {'n_missing': n_missing, 'api': api}

    def run(c):
        try:
            return T.exec_call(ssj, c), None
        except Exception as e:
            return None, e

    if api == 'filter_pair':
        for flag in (False, True):
            c = with_missing(call, flag)
            tok = T.make_tokenizer(c['tok'])
            try:
                flt = T.make_filter(ssj, c['filter'], tok)
            except Exception as e:
                rec.violation('succeeds', tag + 'filter constructor raised %r' % (e,), case=case)
                return info
            for lv in lvals[:6] + [None, gen.NAN]:
                for rv in rvals[:6] + [None, gen.NAN]:
                    if not (model.is_missing(lv) or model.is_missing(rv)):
                        continue
                    rec.count('filter_pair_missing_calls')
                    try:
                        d = flt.filter_pair(lv, rv)
                    except Exception as e:
                        rec.violation('succeeds', tag + 'filter_pair(%r, %r) raised %r' % (lv, rv, e),
                                      case=case)
                        continue
                    if bool(d) != (not flag):
                        rec.violation('pair', tag + '%s allow_missing=%r: filter_pair(%r, %r) returned '
                                      'dropped=%r' % (c['filter'], flag, lv, rv, d), case=case)
        info['n_missing'] = 1
        return info

    cF, cT = with_missing(call, False), with_missing(call, True)
    dfF, eF = run(cF)
    dfT, eT = run(cT)
    for flag, e in ((False, eF), (True, eT)):
        if e is not None:
            rec.violation('succeeds', tag + 'valid call with allow_missing=%r raised %s: %s'
                          % (flag, type(e).__name__, str(e)[:200]), case=case)
    if dfF is None or dfT is None:
        return info
    rec.count('calls_completed', 2)
    if api in ('filter_candset', 'apply_matcher'):
        C = call['candset']
        ids = C['data']['_id']
        cl = [model.canon_cell(k) for k in C['data'][call['c_l_key']]]
        cr = [model.canon_cell(k) for k in C['data'][call['c_r_key']]]
        miss_ids = [model.canon_cell(i) for i, a, b in zip(ids, cl, cr) if lmiss[a] or rmiss[b]]
        from collections import Counter
        want = Counter(miss_ids)
        gotF = Counter(model.canon_cell(v) for v in dfF['_id'].tolist()) if '_id' in dfF.columns else Counter()
        gotT = Counter(model.canon_cell(v) for v in dfT['_id'].tolist()) if '_id' in dfT.columns else Counter()
        rec.count('missing_candset_rows', len(miss_ids))
        for i in want:
            if gotF.get(i, 0):
                rec.violation('drop', tag + 'allow_missing=False but candidate row _id=%r with a '
                              'missing value was kept' % (i,), case=case)
            if gotT.get(i, 0) != want[i]:
                rec.violation('keep', tag + 'allow_missing=True but candidate row _id=%r with a '
                              'missing value is kept %d times, expected %d' % (i, gotT.get(i, 0), want[i]),
                              case=case)
        rowsF = model.canon_rows(dfF, drop=())
        rowsT = [r for r, i in zip(model.canon_rows(dfT, drop=()),
                                   [model.canon_cell(v) for v in dfT['_id'].tolist()])
                 if i not in want]
        if rowsF != rowsT:
            rec.violation('unchanged', tag + 'the part of the result over present values differs '
                          'between allow_missing=False (%d rows) and True (%d rows)'
                          % (len(rowsF), len(rowsT)), case=case)
        if api == 'apply_matcher' and '_sim_score' in dfT.columns:
            for i, s in zip(dfT['_id'].tolist(), dfT['_sim_score'].tolist()):
                if model.canon_cell(i) in want and not model.is_missing(s):
                    rec.violation('nan_score', tag + 'kept missing row _id=%r has score %r' % (i, s),
                                  case=case)
        return info
    # joins and filter_tables
    view = oracle.TableView(cT) if 'tok' in cT and cT['tok'] else None
    lp = call.get('l_out_prefix', 'l_') + call['l_key']
    rp = call.get('r_out_prefix', 'r_') + call['r_key']

    def split(df):
        keys = list(zip([model.canon_cell(v) for v in df[lp].tolist()],
                        [model.canon_cell(v) for v in df[rp].tolist()]))
        rows = model.canon_rows(df)
        return keys, rows
    kF, rF = split(dfF)
    kT, rT = split(dfT)
    for (a, b) in kF:
        if lmiss.get(a) or rmiss.get(b):
            rec.violation('exclude', tag + 'allow_missing=False but output contains pair (%r, %r) with '
                          'a missing value' % (a, b), case=case)
    from collections import Counter
    want = set((a, b) for a in lk for b in rk if lmiss[a] or rmiss[b])
    got = Counter(p for p in kT if p in want)
    rec.count('missing_pairs_expected', len(want))
    if len(want) > 2048:
        rec.count('cases_over_2048_missing_pairs')
    if len(want) > 8192:
        rec.count('cases_over_8192_missing_pairs')
    for p in want:
        if got.get(p, 0) != 1:
            rec.violation('include', tag + 'allow_missing=True: pair %r with a missing value occurs '
                          '%d times, expected exactly once' % (p, got.get(p, 0)), case=case)
            break
    if '_sim_score' in dfT.columns:
        for p, s in zip(kT, dfT['_sim_score'].tolist()):
            if p in want and not model.is_missing(s):
                rec.violation('nan_score', tag + 'missing pair %r has score %r, expected NaN' % (p, s),
                              case=case)
                break
    restT = Counter(r for p, r in zip(kT, rT) if p not in want)
    if restT != Counter(rF):
        rec.violation('unchanged', tag + 'the part of the result over present values differs between '
                      'allow_missing=False (%d rows) and True (%d rows)' % (len(rF), sum(restT.values())),
                      case=case)
    oracle.check_ids(dfT, rec, case=case, tag=tag)
    return info


def run_shard(shard, rec):
    ssj = env.load()
    monitors.import_repo_modules()
    reach = monitors.Reach()
    reach.start()
    contracts = monitors.Contracts()
    contracts.attach_missing()
    n = 0
    for (entry, pattern) in shard['combos']:
        for r in range(shard['reps']):
            case = {'gen': 'mv', 'entry': entry, 'pattern': pattern,
                    'seed': shard['seed'] * 100000 + n, 'str_dtype': False}
            if shard.get('big'):
                case['big'] = True
            n += 1
            info = run_case(case, rec, ssj)
            if shard.get('big'):
                rec.count('big_cases')
            rec.case(sig=(entry, pattern, case['seed']), nontrivial=info['n_missing'] > 0, n=2)
            rec.add('entry_pattern', (entry, pattern))
        if len(rec.samples) < 2:
            rec.sample({'entry': entry, 'pattern': pattern,
                        'left_values': make_call(random.Random(case['seed']), entry, pattern)['ltable']['data']['lattr'][:8]},
                       limit=2)
    reach.stop()
    for k, v in reach.anchors(ANCHORS).items():
        rec.reach[k] = v
    cs = contracts.summary()
    for k, v in cs['evaluations'].items():
        rec.count('contract_evals.' + k, v)
    for k, v in cs['anomalies'].items():
        rec.count('contract_anomalies.' + k, v)
    contracts.detach()


def finalize(agg, tier):
    c = agg['counters']
    if c.get('missing_pairs_expected', 0) == 0:
        agg['inconclusive'].append('no pair with a missing side was expected in any join/filter_tables case')
    if c.get('calls_completed', 0) == 0:
        agg['inconclusive'].append('no call completed')


def coverage_extra(agg, tier):
    c = agg['counters']
    return {'missing_pairs_expected': c.get('missing_pairs_expected', 0),
            'cases_over_2048_missing_pairs': c.get('cases_over_2048_missing_pairs', 0),
            'cases_over_8192_missing_pairs': c.get('cases_over_8192_missing_pairs', 0),
            'missing_candset_rows': c.get('missing_candset_rows', 0),
            'entry_points_x_patterns': len(agg['sets'].get('entry_pattern', ()))}
