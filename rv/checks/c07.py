"""C07 -- a join equals filter_tables followed by apply_matcher.

Deciding oracle (boundary, three real code paths related): key pairs of join == key pairs of
apply_matcher(filter_tables(...)) after removing both-empty pairs and pairs whose raw and rounded
scores straddle the threshold (decided by the model); round(pipeline score, 4) == join score.  For
edit distance: join ⊆ pipeline, equality on pairs sharing a q-gram."""
import random

from rv import env, gen, model, monitors, oracle
from rv import tables as T
from rv.checks import c03

PROPERTY = 'C07'
LEVEL = 'exploration'
RULE = ('cases = seeded random tables (all tokenizers, missing/empty values, str/object dtype) and '
        'the bundled person data x measure x threshold x operator x first-stage filter (Size, Prefix, '
        'Position, Overlap>=1) x independent n_jobs for the two stages; edit distance with the q-gram '
        'filters then Levenshtein; W5 rare-shared-token tables at thresholds next to attained scores with '
        'and without the score column; LARGE planted tables of 1100 to 4100 rows. Non-trivial = the join returned at least one pair that is neither '
        'both-empty nor missing; distinct = case seed.')
ASSUMPTIONS = ['py_stringmatching similarity functions/tokenizers are trusted',
               'SuffixFilter is (by the property) not a first stage']
SHARD_TIMEOUT = {'quick': 600, 'thorough': 3600}

ANCHORS = {
    'join.verify': ('py_stringsimjoin/join/set_sim_join.py', r'if comp_fn\(sim_score, threshold\)'),
    'matcher.compare': ('py_stringsimjoin/matcher/apply_matcher.py', r'allow_pair = comp_fn\(sim_score, threshold\)'),
    'edit.verify': ('py_stringsimjoin/join/edit_distance_join_py.py', r'if comp_fn\(edit_dist, threshold\)'),
}


def plan(tier, seed):
    n = 500 if tier == 'quick' else 5000
    shards = [{'name': 'pl_%d' % i, 'kind': 'pl', 'n': n, 'seed': seed * 1000 + 120 + i}
              for i in range(13)]
    ths = gen.threshold_pool('basic')
    combos = [(m, t) for m in ('JACCARD', 'COSINE', 'DICE') for t in ths]
    random.Random(seed * 1000 + 119).shuffle(combos)
    if tier == 'quick':
        combos = combos[:120]
    shards.append({'name': 'tight_a', 'kind': 'tight', 'N': 16 if tier == 'quick' else 30, 'combos': combos[0::2]})
    shards.append({'name': 'tight_b', 'kind': 'tight', 'N': 16 if tier == 'quick' else 30, 'combos': combos[1::2]})
    shards.append({'name': 'w5', 'kind': 'w5', 'N': 6 if tier == 'quick' else 9,
                   'n': 20 if tier == 'quick' else 200, 'seed': seed * 1000 + 137})
    shards.append({'name': 'large', 'kind': 'large', 'sizes': [1100, 2300] if tier == 'quick' else
                   [600, 1100, 2300, 4100]})
    shards.append({'name': 'person', 'kind': 'person', 'seed': seed * 1000 + 135,
                   'n': 40 if tier == 'quick' else 300})
    return shards


def keyset(df, lcol, rcol, score=True):
    out = {}
    sc = df['_sim_score'].tolist() if (score and '_sim_score' in df.columns) else [None] * len(df)
    for a, b, s in zip(df[lcol].tolist(), df[rcol].tolist(), sc):
        out.setdefault((model.canon_cell(a), model.canon_cell(b)), []).append(s)
    return out


def run_pipeline(ssj, rec, case, call, fspec, n1, n2, measure):
    """-> (join df, pipeline df) or None"""
    base = dict(call)
    try:
        j = T.exec_call(ssj, base)
    except Exception as e:
        rec.count('calls_raised')
        rec.add('raised', 'join %s: %s' % (type(e).__name__, str(e)[:80]))
        return None
    fcall = {'api': 'filter_tables', 'filter': fspec, 'ltable': call['ltable'], 'rtable': call['rtable'],
             'l_key': call['l_key'], 'r_key': call['r_key'], 'l_attr': call['l_attr'],
             'r_attr': call['r_attr'], 'tok': call['tok'], 'n_jobs': n1}
    try:
        cand = T.exec_call(ssj, fcall)
    except Exception as e:
        rec.count('calls_raised')
        rec.add('raised', 'filter %s: %s' % (type(e).__name__, str(e)[:80]))
        return None
    import py_stringmatching as sm
    if measure == 'EDIT_DISTANCE':
        tok, sf = None, sm.Levenshtein().get_raw_score
    else:
        tok = T.make_tokenizer(call['tok'])
        sf = T.sim_function(measure)
    L, R = T.make_table(call['ltable']), T.make_table(call['rtable'])
    L, R = T.unflag_if_key_is_attr(call, L, R)
    import joblib
    try:
        with joblib.parallel_config(backend='threading'):
            p = ssj.apply_matcher(cand, 'l_' + call['l_key'], 'r_' + call['r_key'], L, R,
                                  call['l_key'], call['r_key'], call['l_attr'], call['r_attr'],
                                  tok, sf, call['threshold'], call['comp_op'],
                                  allow_missing=call.get('allow_missing', False),
                                  n_jobs=n2, show_progress=False)
    except Exception as e:
        rec.count('calls_raised')
        rec.add('raised', 'matcher %s: %s' % (type(e).__name__, str(e)[:80]))
        return None
    rec.count('candidates', len(cand))
    return j, p


def compare(rec, case, call, measure, j, p, fspec):
    lcol, rcol = 'l_' + call['l_key'], 'r_' + call['r_key']
    J, P = keyset(j, lcol, rcol), keyset(p, lcol, rcol)
    tag = '%s %s %r via %s: ' % (call['api'], call['comp_op'], call['threshold'], fspec['kind'])
    nontrivial = 0
    if measure == 'EDIT_DISTANCE':
        ev = oracle.EditView(call)
        view = ev.view
        for k in J:
            if k not in P:
                rec.violation('subset', tag + 'join pair %r is not in the pipeline result' % (k,),
                              case=case)
        for k in P:
            i, jx = view.lpos[k[0]], view.rpos[k[1]]
            if view.lmiss[i] or view.rmiss[jx]:
                continue
            share = not set(view.ltoks[i]).isdisjoint(view.rtoks[jx])
            if share:
                nontrivial += 1
                if k not in J:
                    rec.violation('agree', tag + 'pipeline pair %r (l=%r r=%r) shares a q-gram but is '
                                  'not in the join result' % (k, view.lvals[i], view.rvals[jx]), case=case)
            else:
                rec.count('ed_gap_pairs_only_in_pipeline', 0 if k in J else 1)
        for k in J:
            if k in P and not all(oracle._same_number(a, b) or (model.is_missing(a) and model.is_missing(b))
                                  for a, b in zip(J[k], P[k])):
                rec.violation('score', tag + 'scores differ for %r: join %r pipeline %r' % (k, J[k], P[k]),
                              case=case)
        return nontrivial
    view = oracle.TableView(call)
    ov = view.overlaps()
    le, re_ = view.empties()
    both_empty = set((view.lkeys[a], view.rkeys[b]) for a in le for b in re_)
    for k in set(J) | set(P):
        if k in both_empty:
            rec.count('both_empty_excluded')
            continue
        i, jx = view.lpos.get(k[0]), view.rpos.get(k[1])
        if i is None or jx is None:
            rec.violation('keys', tag + 'unknown key pair %r' % (k,), case=case)
            continue
        if view.lmiss[i] or view.rmiss[jx]:
            if (k in J) != (k in P):
                rec.violation('missing', tag + 'missing-value pair %r in only one of the results' % (k,),
                              case=case)
            continue
        a, b = len(view.ltoks[i]), len(view.rtoks[jx])
        o = ov.get((i, jx), 0)
        cls = model.classify(measure, call['comp_op'], call['threshold'], a, b, o,
                             identical_shortcut=False)
        if cls == model.ALLOWED:
            rec.count('straddling_excluded')
            continue
        nontrivial += 1
        if (k in J) != (k in P):
            rec.violation('pairs', tag + 'pair %r (l=%r r=%r, |X|=%d |Y|=%d |X∩Y|=%d, model: %s) is in '
                          'the %s result only' % (k, view.lvals[i], view.rvals[jx], a, b, o, cls,
                                                  'join' if k in J else 'pipeline'), case=case)
            continue
        if len(J[k]) != 1 or len(P[k]) != 1:
            rec.violation('once', tag + 'pair %r occurs %d / %d times' % (k, len(J[k]), len(P[k])),
                          case=case)
            continue
        js, ps = J[k][0], P[k][0]
        if js is not None and ps is not None:
            exp = round(ps, 4) if measure in model.ROUNDED else ps
            if not oracle._same_number(js, exp):
                rec.violation('score', tag + 'pair %r: join score %r, pipeline score %r' % (k, js, ps),
                              case=case)
            rec.count('scores_compared')
    return nontrivial


def make_case(rng, person=None):
    r = rng.random()
    if r < 0.2:
        api = 'edit_distance_join'
    else:
        api = rng.choice(['jaccard_join', 'cosine_join', 'dice_join', 'overlap_coefficient_join',
                          'overlap_join'])
    measure = T.JOIN_MEASURE[api]
    if api == 'edit_distance_join':
        call = c03.nb_call(rng)
        call['tok']['return_set'] = False
        call['l_out_attrs'] = call['r_out_attrs'] = None
        call['out_sim_score'] = True
        kind = rng.choice(['SizeFilter', 'PrefixFilter', 'PositionFilter'])
        fspec = {'kind': kind, 'measure': 'EDIT_DISTANCE', 'threshold': int(call['threshold']),
                 'allow_missing': call['allow_missing']}
    else:
        tok = gen.random_tokenizer(rng, allow_bag=False)
        call = gen.random_join_call(rng, api=api, tok=tok, max_rows=10)
        call['l_out_attrs'] = call['r_out_attrs'] = None
        call.pop('l_out_prefix', None)
        call.pop('r_out_prefix', None)
        call['out_sim_score'] = True
        if person is not None:
            call['ltable'], call['rtable'] = person
            call['l_key'], call['r_key'] = 'A.id', 'B.id'
            call['l_attr'], call['r_attr'] = rng.choice([('A.name', 'B.name'), ('A.address', 'B.address')])
            call['tok'] = {'kind': rng.choice(['ws', 'qgram']), 'q': rng.choice([2, 3]),
                           'padding': True, 'return_set': True}
        if measure == 'OVERLAP':
            kind = rng.choice(['SizeFilter', 'PrefixFilter', 'PositionFilter', 'OverlapFilter'])
            # (a fractional threshold is handed to the filter as it is: an overlap of at least 2.5 is
            #  an overlap of at least 3 -- this crashed before the repair of F12)
            fspec = {'kind': kind, 'measure': 'OVERLAP', 'threshold': call['threshold'],
                     'overlap_size': 1, 'comp_op': '>='}
        elif measure == 'OVERLAP_COEFFICIENT':
            fspec = {'kind': 'OverlapFilter', 'overlap_size': 1, 'comp_op': '>='}
        else:
            kind = rng.choice(['SizeFilter', 'PrefixFilter', 'PositionFilter', 'OverlapFilter'])
            fspec = {'kind': kind, 'measure': measure, 'threshold': call['threshold'],
                     'overlap_size': 1, 'comp_op': '>='}
        fspec['allow_empty'] = call.get('allow_empty', True)
        fspec['allow_missing'] = call['allow_missing']
    n1, n2 = rng.choice([1, 1, 2, 3]), rng.choice([1, 1, 2, 3])
    return call, fspec, n1, n2, measure


def tight_case(case, rec, ssj):
    """Tight tables (every size pair <= N with the least qualifying overlap, shared tokens last):
    the join must agree with every filter+matcher pipeline exactly on the threshold."""
    m, t, N = case['measure'], case['threshold'], case['N']
    # amin > 1: no short record on the left at all (every left record is longer than some probe)
    sizes = [(a, b) for a in range(case.get('amin', 1), N + 1) for b in range(1, N + 1)]
    L, R, groups = gen.tight_tables(m, t, sizes)
    call = {'api': T.MEASURE_JOIN[m], 'ltable': L, 'rtable': R, 'l_key': 'id', 'r_key': 'id',
            'l_attr': 's', 'r_attr': 's', 'tok': {'kind': 'ws', 'return_set': True}, 'threshold': t,
            'comp_op': case.get('comp_op', '>='), 'allow_empty': True, 'allow_missing': False,
            'out_sim_score': True, 'n_jobs': 1}
    nt = 0
    for kind in ('PrefixFilter', 'PositionFilter', 'OverlapFilter') + (('SizeFilter',) if N <= 16 else ()):
        fspec = {'kind': kind, 'measure': m, 'threshold': t, 'overlap_size': 1, 'comp_op': '>='}
        res = run_pipeline(ssj, rec, case, call, fspec, 1, 1, m)
        if res is None:
            continue
        nt = max(nt, compare(rec, case, call, m, res[0], res[1], fspec))
    rec.count('pairs_compared', nt)
    return {'nontrivial': nt, 'call': call, 'fspec': fspec}


def w5_case(case, rec, ssj):
    """Join versus pipeline on the rare-shared-token tables (every shared token inside both
    prefixes), thresholds at / next to attained scores, with and without the score column."""
    m, t = case['measure'], case['threshold']
    L, R, groups = gen.rare_shared_tables(case['N'])
    call = {'api': T.MEASURE_JOIN[m], 'ltable': L, 'rtable': R, 'l_key': 'id', 'r_key': 'id',
            'l_attr': 's', 'r_attr': 's', 'tok': {'kind': 'ws', 'return_set': True}, 'threshold': t,
            'comp_op': case.get('comp_op', '>='), 'allow_empty': True, 'allow_missing': False,
            'out_sim_score': case.get('out_sim_score', True), 'n_jobs': case.get('n_jobs', 1)}
    fspec = {'kind': case['filter'], 'measure': m, 'threshold': t, 'overlap_size': 1, 'comp_op': '>='}
    res = run_pipeline(ssj, rec, case, call, fspec, 1, 1, m)
    nt = 0
    if res is not None:
        nt = compare(rec, case, call, m, res[0], res[1], fspec)
    rec.count('pairs_compared', nt)
    rec.count('w5_cases')
    return {'nontrivial': nt, 'call': call, 'fspec': fspec}


def large_case(case, rec, ssj):
    """Join versus pipeline on tables beyond 1000 / 2048 rows (filler rows, planted matching pairs,
    near misses whose score depends on a token that occurs in one row only)."""
    m, t = case['measure'], case['threshold']
    L, R, planted = gen.large_planted_tables(random.Random(case['seed']), case['n'], 'ws')
    call = {'api': T.MEASURE_JOIN[m], 'ltable': L, 'rtable': R, 'l_key': 'id', 'r_key': 'id',
            'l_attr': 's', 'r_attr': 's', 'tok': {'kind': 'ws', 'return_set': True}, 'threshold': t,
            'comp_op': case.get('comp_op', '>='), 'allow_empty': True, 'allow_missing': False,
            'out_sim_score': True, 'n_jobs': case.get('n_jobs', 1)}
    nt = 0
    fspec = None
    for kind in case['filters']:
        fspec = {'kind': kind, 'measure': m, 'threshold': t, 'overlap_size': 1, 'comp_op': '>='}
        res = run_pipeline(ssj, rec, case, call, fspec, 1, 2, m)
        if res is None:
            continue
        nt = max(nt, compare(rec, case, call, m, res[0], res[1], fspec))
    rec.count('pairs_compared', nt)
    rec.count('large_table_cases')
    return {'nontrivial': nt, 'call': call, 'fspec': fspec}


def run_case(case, rec, ssj=None, person=None):
    ssj = ssj or env.load()
    if case['gen'] == 'tight':
        return tight_case(case, rec, ssj)
    if case['gen'] == 'large':
        return large_case(case, rec, ssj)
    if case['gen'] == 'w5':
        return w5_case(case, rec, ssj)
    rng = random.Random(case['seed'])
    if case.get('person') and person is None:
        person = load_person(ssj)
    call, fspec, n1, n2, measure = make_case(rng, person if case.get('person') else None)
    res = run_pipeline(ssj, rec, case, call, fspec, n1, n2, measure)
    if res is None:
        return {'nontrivial': 0, 'call': call, 'fspec': fspec}
    j, p = res
    nt = compare(rec, case, call, measure, j, p, fspec)
    rec.count('pairs_compared', nt)
    return {'nontrivial': nt, 'call': call, 'fspec': fspec, 'n1': n1, 'n2': n2}


def load_person(ssj):
    A, B = ssj.load_person_dataset()

    def spec(df):
        cols = list(df.columns)
        data = dict((c, [None if model.is_missing(v) else (v.item() if hasattr(v, 'item') else v)
                         for v in df[c].tolist()]) for c in cols)
        dtypes = dict((c, 'object') for c in cols if str(df[c].dtype) in ('str', 'object', 'string'))
        return {'cols': cols, 'data': data, 'index': None, 'dtypes': dtypes}
    return spec(A), spec(B)


def run_shard(shard, rec):
    ssj = env.load()
    monitors.import_repo_modules()
    reach = monitors.Reach()
    reach.start()
    person = load_person(ssj) if shard['kind'] == 'person' else None
    if shard['kind'] == 'tight':
        for ci, (m, t) in enumerate(shard['combos']):
            case = {'gen': 'tight', 'measure': m, 'threshold': t, 'N': shard['N'],
                    'comp_op': '>=' if ci % 4 else '='}
            if ci % 3 == 1:
                case['amin'] = (3, 5, 8)[ci % 9 // 3]
            st = tight_case(case, rec, ssj)
            rec.case(sig=('tight', m, t, shard['N'], case['comp_op']), nontrivial=st['nontrivial'] > 0, n=4)
            rec.add('api_filter', (st['call']['api'], 'tight'))
        rec.sample({'workload': 'tight tables', 'N': shard['N'], 'combos': shard['combos'][:3]}, limit=1)
        shard = dict(shard, n=0)
    if shard['kind'] == 'w5':
        rng = random.Random(shard['seed'])
        for m in ('JACCARD', 'COSINE', 'DICE', 'OVERLAP_COEFFICIENT'):
            for i, t in enumerate(gen.near_score_thresholds(m, shard['N'], rng, shard['n'])):
                case = {'gen': 'w5', 'N': shard['N'], 'measure': m, 'threshold': t,
                        'comp_op': ('>=', '>=', '>', '=')[i % 4], 'out_sim_score': i % 2 == 1,
                        'filter': ('SizeFilter', 'OverlapFilter', 'PrefixFilter')[i % 3] if m != 'OVERLAP_COEFFICIENT'
                        else 'OverlapFilter', 'n_jobs': 1 + i % 2}
                st = w5_case(case, rec, ssj)
                rec.case(sig=('w5', m, t, case['comp_op'], case['out_sim_score']), nontrivial=st['nontrivial'] > 0, n=3)
                rec.add('api_filter', (st['call']['api'], 'w5'))
        rec.sample({'workload': 'W5 rare shared tokens', 'N': shard['N']}, limit=1)
        shard = dict(shard, n=0)
    if shard['kind'] == 'large':
        for x, n in enumerate(shard['sizes']):
            for y, (m, t) in enumerate([('JACCARD', 0.8), ('JACCARD', 0.6), ('COSINE', 0.85), ('DICE', 0.7)]):
                if rec.tier == 'quick' and (x + y) % 2 and y > 1:
                    continue
                case = {'gen': 'large', 'n': n, 'measure': m, 'threshold': t, 'seed': 55 + 7 * x + y,
                        'filters': ['PrefixFilter', 'OverlapFilter'] if (x + y) % 2 else ['PositionFilter', 'OverlapFilter'],
                        'n_jobs': 1 + (x + y) % 2}
                st = large_case(case, rec, ssj)
                rec.case(sig=('large', n, m, t), nontrivial=st['nontrivial'] > 0, n=3)
                rec.add('api_filter', (st['call']['api'], 'large'))
        rec.sample({'workload': 'large tables', 'sizes': shard['sizes']}, limit=1)
        shard = dict(shard, n=0)
    for i in range(shard['n']):
        case = {'gen': 'pl', 'seed': shard['seed'] * 100000 + i, 'person': shard['kind'] == 'person'}
        st = run_case(case, rec, ssj, person)
        rec.case(sig=('pl', case['seed'], case['person']), nontrivial=st['nontrivial'] > 0, n=3)
        rec.add('api_filter', (st['call']['api'], st['fspec']['kind']))
        rec.add('op', st['call']['comp_op'])
        if i == 0:
            rec.sample({'api': st['call']['api'], 'threshold': st['call']['threshold'],
                        'comp_op': st['call']['comp_op'], 'first_stage': st['fspec'],
                        'n_jobs_stage1': st.get('n1'), 'n_jobs_stage2': st.get('n2'),
                        'tok': st['call']['tok'],
                        'left_values': T.column(st['call']['ltable'], st['call']['l_attr'])[:4]}, limit=1)
    reach.stop()
    for k, v in reach.anchors(ANCHORS).items():
        rec.reach[k] = v


def finalize(agg, tier):
    c = agg['counters']
    if c.get('pairs_compared', 0) == 0:
        agg['inconclusive'].append('no pair was compared between join and pipeline')


def coverage_extra(agg, tier):
    c = agg['counters']
    return {'pairs_compared': c.get('pairs_compared', 0), 'scores_compared': c.get('scores_compared', 0),
            'straddling_excluded': c.get('straddling_excluded', 0),
            'both_empty_excluded': c.get('both_empty_excluded', 0),
            'first_stage_candidates': c.get('candidates', 0)}
