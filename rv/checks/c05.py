"""C05 -- apply_matcher keeps exactly the candidate rows that satisfy the predicate.

Deciding oracle (boundary): the candidate set is replayed row by row with the same sim_function on
freshly tokenised values; the real output must be the identical row sequence (original _id, keys,
projected attributes, _sim_score; NaN score for kept missing rows), and must be identical across
cache on/off (forced by padding the tables) and across n_jobs / backends."""
import random

from rv import env, gen, model, monitors, oracle
from rv import tables as T

PROPERTY = 'C05'
LEVEL = 'exploration'
RULE = ('cases = real apply_matcher executions on seeded random (tables, candidate set, similarity '
        'function, operator, threshold, projection) drawn so that thresholds hit attained scores, '
        'both sides of the token-cache switch occur, candidate sets are subsets/permutations/with '
        'repeats and repeated ids, with extra columns, arbitrary index and non-serial _id; similarity '
        'functions incl. signed, NaN-returning and slow user functions, and numeric / datetime match '
        'attributes with tokenizer None; each case is also re-run '
        'with padded tables (cache off), with other n_jobs and (sampled) under loky. Non-trivial = '
        'the candidate set has at least one row with two present values; distinct = case seed.')
ASSUMPTIONS = ['py_stringmatching similarity functions and tokenizers are trusted',
               'candidate sets have the filter output format (_id first) as the property states']
SHARD_TIMEOUT = {'quick': 600, 'thorough': 3600}

SIMS = [('JACCARD', True), ('COSINE', True), ('DICE', True), ('OVERLAP_COEFFICIENT', True),
        ('OVERLAP', True), ('user_bound', True), ('user_len_diff', True), ('EDIT_DISTANCE', False),
        ('user_len_diff', False), ('user_neg', True), ('user_neg', False), ('user_signed', True),
        ('user_nw', False), ('user_partial', True), ('user_callable', True), ('user_order', True),
        ('user_order', True), ('user_tversky', True), ('user_bound', True), ('user_nan', True), ('user_nan', False), ('user_jitter', True)]
OPS6 = ['>=', '>', '<=', '<', '=', '!=']

ANCHORS = {
    'matcher.cache_on': ('py_stringsimjoin/matcher/apply_matcher.py', r'l_apply_col_value = l_tokens\[l_id\]'),
    'matcher.cache_off': ('py_stringsimjoin/matcher/apply_matcher.py', r'l_apply_col_value = tokenizer.tokenize\(l_apply_col_value\)'),
    'matcher.missing_kept': ('py_stringsimjoin/matcher/apply_matcher.py', r'sim_score = np.NaN'),
    'matcher.parallel': ('py_stringsimjoin/matcher/apply_matcher.py', r'candset_splits = split_table\(candset, n_jobs\)'),
    'matcher.with_attrs': ('py_stringsimjoin/matcher/apply_matcher.py', r'output_row.insert\(0, candset_row\[0\]\)'),
}


def plan(tier, seed):
    n = 450 if tier == 'quick' else 6000
    shards = [{'name': 'am_%d' % i, 'kind': 'am', 'n': n, 'seed': seed * 1000 + 50 + i}
              for i in range(12)]
    shards.append({'name': 'loky', 'kind': 'loky', 'n': 25 if tier == 'quick' else 250,
                   'seed': seed * 1000 + 63})
    return shards


def make_case_call(rng):
    simname, needs_tok = rng.choice(SIMS)
    if needs_tok:
        tok = gen.random_tokenizer(rng)
    else:
        tok = None
    L, R, tk = gen.random_table_pair(rng, tok=tok or {'kind': 'ws', 'return_set': True},
                                     max_rows=rng.choice([3, 6, 12]), missing=0.15)
    lkey, rkey = 'lid', 'rid'
    if rng.random() < 0.12:
        # the (unique, never missing) match attribute is also the key attribute
        for spec, side in ((L, 'l'), (R, 'r')):
            vals = spec['data'][side + 'attr']
            # (no NUL characters in a KEY column: pandas' own unique() compares object strings only up
            #  to the first NUL, so such keys are not distinguishable for pandas itself -- DESIGN 8.3)
            spec['data'][side + 'attr'] = ['%s u%d' % (v.replace('\x00', '') if isinstance(v, str) else 'x', i)
                                           for i, v in enumerate(vals)]
        lkey, rkey = 'lattr', 'rattr'
    numeric = None
    if tok is None and rng.random() < 0.35 and lkey == 'lid':
        # match attributes that are not strings (prices, years, dates) compared by a user function;
        # missing = NaN / NaT
        import pandas as pd
        numeric = rng.choice(['float', 'date', 'float32'])
        simname = 'user_numdiff'
        for spec, side in ((L, 'l'), (R, 'r')):
            n = T.spec_len(spec)
            if numeric == 'date':
                vals = [pd.NaT if rng.random() < 0.15 else pd.Timestamp('2020-01-01') + pd.Timedelta(days=rng.randint(0, 6))
                        for _ in range(n)]
                spec['dtypes'][side + 'attr'] = 'datetime64[ns]'
            else:
                vals = [gen.NAN if rng.random() < 0.15 else float(rng.randint(0, 6)) + rng.choice([0.0, 0.5])
                        for _ in range(n)]
                spec['dtypes'][side + 'attr'] = 'float64' if numeric == 'float' else 'float32'
            spec['data'][side + 'attr'] = vals
    C = gen.random_candset(rng, L, R, lkey, rkey)
    if rng.random() < 0.08 and T.spec_len(C) > 1:
        # two blockers' outputs concatenated: pair ids restart, and a pair can occur twice
        first = C['cols'][0]
        n = T.spec_len(C)
        k = rng.randint(1, n)
        extra = [rng.randrange(n) for _ in range(rng.randint(1, 3))]
        for c in C['cols']:
            col = C['data'][c]
            C['data'][c] = list(col) + [col[x] for x in extra]
        C['data'][first] = [i % k for i in range(n + len(extra))]
        if C.get('index') is not None:
            C['index'] = list(C['index']) + [C['index'][x] for x in extra]
    call = {'api': 'apply_matcher', 'ltable': L, 'rtable': R, 'candset': C,
            'c_l_key': 'l_' + lkey, 'c_r_key': 'r_' + rkey, 'l_key': lkey, 'r_key': rkey,
            'l_attr': 'lattr', 'r_attr': 'rattr', 'tok': tok, 'sim': simname,
            'comp_op': rng.choice(OPS6), 'allow_missing': rng.random() < 0.4,
            'l_out_attrs': gen.random_out_attrs(rng, L, lkey, 'lattr'),
            'r_out_attrs': gen.random_out_attrs(rng, R, rkey, 'rattr'),
            'out_sim_score': rng.random() < 0.8, 'n_jobs': rng.choice([1, 1, 2, 3, 50, -1])}
    if numeric:
        call['numeric_match'] = numeric
    if rng.random() < 0.3:
        call['l_out_prefix'], call['r_out_prefix'] = rng.choice([('left_', 'right_'), ('a.', 'b.'), ('', 'r.')])
    if rng.random() < 0.25:
        call['show_progress'] = True          # the documented default
    return call


def expected_rows(call):
    """Row-by-row replay of the candidate set with the same similarity function."""
    L, R, C = call['ltable'], call['rtable'], call['candset']
    sf = T.sim_function(call['sim'])
    tok = call['tok']
    lrow = dict((model.canon_cell(k), i) for i, k in enumerate(T.column(L, call['l_key'])))
    rrow = dict((model.canon_cell(k), i) for i, k in enumerate(T.column(R, call['r_key'])))
    fn = model.OPS[call.get('comp_op', '>=')]

    def dedup(attrs, key):
        out = []
        for a in attrs or []:
            if a != key and a not in out:
                out.append(a)
        return out
    lo, ro = dedup(call.get('l_out_attrs'), call['l_key']), dedup(call.get('r_out_attrs'), call['r_key'])
    lp, rp = call.get('l_out_prefix', 'l_'), call.get('r_out_prefix', 'r_')
    cols = ['_id', lp + call['l_key'], rp + call['r_key']] + [lp + a for a in lo] + [rp + a for a in ro]
    if call.get('out_sim_score', True):
        cols.append('_sim_score')
    rows, scores = [], []
    first = C['cols'][0]
    n = T.spec_len(C)
    present = 0
    for x in range(n):
        cid = C['data'][first][x]
        lk, rk = C['data'][call['c_l_key']][x], C['data'][call['c_r_key']][x]
        i, j = lrow[model.canon_cell(lk)], rrow[model.canon_cell(rk)]
        lv, rv = L['data'][call['l_attr']][i], R['data'][call['r_attr']][j]
        if model.is_missing(lv) or model.is_missing(rv):
            if not call.get('allow_missing', False):
                continue
            score = float('nan')
        else:
            present += 1
            if tok is not None:
                a = T.model_tokens(tok, lv, as_set=tok['return_set'])
                b = T.model_tokens(tok, rv, as_set=tok['return_set'])
            else:
                a, b = lv, rv
            score = sf(a, b)
            scores.append(score)
            if not fn(score, call['threshold']):
                continue
        row = [cid, lk, rk] + [L['data'][a_][i] for a_ in lo] + [R['data'][a_][j] for a_ in ro]
        if call.get('out_sim_score', True):
            row.append(score)
        rows.append(tuple(model.canon_cell(v) for v in row))
    return cols, rows, scores, present


def pad_tables(call, k):
    """Same call with k unused rows appended to the left table (switches the token cache off)."""
    c = dict(call)
    L = dict(call['ltable'])
    L['data'] = dict((cn, list(v)) for cn, v in L['data'].items())
    n = T.spec_len(L)
    keys = L['data'][call['l_key']]
    for x in range(k):
        for cn in L['cols']:
            col = L['data'][cn]
            if cn == call['l_key']:
                col.append(('PAD%d' % x) if (keys and isinstance(keys[0], str)) else 100000 + x)
            elif cn == call['l_attr']:
                nm = call.get('numeric_match')
                col.append('pad' if not nm else (col[0] if n else 0.0))
            else:
                col.append(col[0] if n else (0 if str(L['dtypes'].get(cn)).startswith(('int', 'float')) else
                                             (False if L['dtypes'].get(cn) == 'bool' else 'p')))
    if L.get('index') is not None:
        L['index'] = list(L['index']) + ['padidx%d' % x for x in range(k)]
        if not isinstance(L['index'][0], str):
            L['index'] = list(range(len(L['index'])))
    if not keys:
        L['dtypes'] = dict(L['dtypes'])
    c['ltable'] = L
    return c


def run_case(case, rec, ssj=None, counter=None):
    ssj = ssj or env.load()
    rng = random.Random(case['seed'])
    call = make_case_call(rng)
    # threshold: an attained score (so '=' / '!=' / boundary operators bite) or a random value
    call['threshold'] = 0.5
    cols, rows, scores, present = expected_rows(call)
    r = rng.random()
    fl = [s for s in scores if isinstance(s, float) and s == s and abs(s) != float('inf') and s != 0.0]
    if fl and r < 0.15:
        # one ulp (or a few) next to an attained score: '=' must not match it, '!=' must
        s = rng.choice(fl)
        for _ in range(rng.choice([1, 1, 2, 4])):
            s = gen.nextafter(s, rng.choice([-1e300, 1e300]))
        call['threshold'] = s
    elif fl and r < 0.21 and all(isinstance(s, (int, float)) and s == s and abs(s) != float('inf') for s in scores):
        # an exact rational / decimal next to an attained score (1/3.0 is not Fraction(1, 3)); Python
        # compares a float with a Fraction or Decimal exactly
        import decimal
        import fractions
        s = rng.choice(fl)
        if abs(s) < 1e6:
            call['threshold'] = rng.choice([fractions.Fraction(s).limit_denominator(12),
                                            decimal.Decimal(repr(round(s, 3))), fractions.Fraction(s)])
        else:
            call['threshold'] = s
    elif scores and r < 0.7:
        call['threshold'] = rng.choice(scores)
    else:
        call['threshold'] = rng.choice([0.3, 0.5, 1, 2, 0.75, 1.0, 0, 0.0, -1, -0.5, -3])
    if case.get('backend'):
        call['backend'] = case['backend']
        call['n_jobs'] = rng.choice([2, 3])
    cols, rows, scores, present = expected_rows(call)
    variants = [('base', call)]
    if not case.get('backend'):
        variants.append(('njobs', dict(call, n_jobs=rng.choice([1, 2, 3, 4, 7, 64]))))
        variants.append(('padded', pad_tables(call, 2 * T.spec_len(call['candset']) + 1)))
    stats = {'present': present, 'expected_rows': len(rows), 'candset_rows': T.spec_len(call['candset'])}
    for name, c in variants:
        before = counter.calls['generate_tokens'] if counter else 0
        try:
            df = T.exec_call(ssj, c)
        except Exception as e:
            rec.count('calls_raised')
            rec.add('raised', '%s: %s' % (type(e).__name__, str(e)[:80]))
            continue
        if counter:
            used = counter.calls['generate_tokens'] > before
            rec.count('cache_used' if used else 'cache_not_used')
        if T.spec_len(c['candset']) == 0:
            if len(df) != 0:
                rec.violation('empty', 'empty candidate set but %d rows returned' % len(df), case=case)
            continue
        got_cols = list(df.columns)
        if got_cols != cols:
            rec.violation('columns', '[%s] columns %r, expected %r' % (name, got_cols, cols), case=case)
            continue
        got = [tuple(model.canon_cell(v) for v in r) for r in df.itertuples(index=False, name=None)]
        if got != rows:
            k = next((x for x in range(min(len(got), len(rows))) if got[x] != rows[x]),
                     min(len(got), len(rows)))
            rec.violation('rows', '[%s] apply_matcher(sim=%s, op=%s, threshold=%r, allow_missing=%r, '
                          'n_jobs=%r): %d rows, expected %d; first difference at position %d: got %r '
                          'expected %r' % (name, call['sim'], call['comp_op'], call['threshold'],
                                           call['allow_missing'], c['n_jobs'], len(got), len(rows), k,
                                           got[k] if k < len(got) else None,
                                           rows[k] if k < len(rows) else None), case=case)
        rec.count('rows_compared', len(rows))
    stats['call'] = call
    return stats


def run_shard(shard, rec):
    ssj = env.load()
    monitors.import_repo_modules()
    reach = monitors.Reach()
    reach.start()
    counter = monitors.CallCounter()
    counter.watch('py_stringsimjoin.matcher.apply_matcher', 'generate_tokens')
    contracts = monitors.Contracts()
    contracts.attach_split_table()
    for i in range(shard['n']):
        case = {'gen': 'am', 'seed': shard['seed'] * 100000 + i}
        if shard['kind'] == 'loky':
            # real worker processes: the library's default backend and joblib's 'multiprocessing' one
            # (which pickles bound methods through the library's own copyreg hook)
            case['backend'] = 'loky' if i % 3 else 'multiprocessing'
        st = run_case(case, rec, ssj, counter)
        call = st['call']
        rec.case(sig=('am', case['seed'], case.get('backend')), nontrivial=st['present'] > 0,
                 n=1 if case.get('backend') else 3)
        rec.add('op', call['comp_op'])
        rec.add('sim', call['sim'])
        rec.add('backend', case.get('backend', 'threading'))
        rec.count('present_pairs', st['present'])
        if i == 0:
            rec.sample({'sim': call['sim'], 'comp_op': call['comp_op'], 'threshold': call['threshold'],
                        'tok': call['tok'], 'allow_missing': call['allow_missing'],
                        'candset_head': T.spec_rows(call['candset'])[:4],
                        'l_out_attrs': call['l_out_attrs'], 'n_jobs': call['n_jobs']}, limit=1)
    reach.stop()
    for k, v in reach.anchors(ANCHORS).items():
        rec.reach[k] = v
    cs = contracts.summary()
    for k, v in cs['evaluations'].items():
        rec.count('contract_evals.' + k, v)
    for k, v in cs['anomalies'].items():
        rec.count('contract_anomalies.' + k, v)
    contracts.detach()
    counter.detach()


def finalize(agg, tier):
    c = agg['counters']
    if c.get('rows_compared', 0) == 0:
        agg['inconclusive'].append('no output row was compared')
    if c.get('cache_used', 0) == 0 or c.get('cache_not_used', 0) == 0:
        agg['inconclusive'].append('only one side of the token-cache switch was exercised '
                                   '(used=%d, not used=%d)' % (c.get('cache_used', 0),
                                                               c.get('cache_not_used', 0)))


def coverage_extra(agg, tier):
    c = agg['counters']
    return {'rows_compared': c.get('rows_compared', 0), 'cache_used_calls': c.get('cache_used', 0),
            'cache_not_used_calls': c.get('cache_not_used', 0)}
