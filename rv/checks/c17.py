"""C17 -- the profiler reports exact unique/missing counts and key suitability.

Deciding oracle (boundary): independent counts (a missing value counts as one distinct value) are
compared with the parsed "N (P%)" cells (|P - 100*N/rows| <= 0.005), one row per profiled attribute
indexed by name; the key recommendation must appear iff all values are distinct and none is missing,
the ignored-rows warning iff at least one value is missing -- also on tables beyond 20 000 rows
where the two-decimal percentages round to 100.0 / 0.0."""
import random
import re

import numpy as np
import pandas as pd

from rv import env, gen, model, monitors
from rv import tables as T

PROPERTY = 'C17'
LEVEL = 'exploration'
RULE = ('cases = seeded tables of 1..50 rows with duplicates / missing values / mixed dtypes (int, '
        'float, str, object, bool) and tables of 20 001..200 000 rows with exactly one duplicate and/or '
        'exactly one missing value, x profile_attrs in {None, subsets, repeated}. Non-trivial = table '
        'with at least one attribute that has a duplicate or a missing value; distinct = case seed.')
ASSUMPTIONS = ['a missing value is None / NaN / pd.NA as pandas.isnull defines it']
SHARD_TIMEOUT = {'quick': 300, 'thorough': 1800}

KEY_TEXT = 'can be used as a key'
MISS_TEXT = 'will ignore'

ANCHORS = {
    'profiler.unique': ('py_stringsimjoin/profiler/profiler.py', r'unique_values = len\(input_table\[attr\].unique\(\)\)'),
    'profiler.missing_comment': ('py_stringsimjoin/profiler/profiler.py', r"comments = ''.join\(\['Joining on this attribute will ignore '"),
    'profiler.key_comment': ('py_stringsimjoin/profiler/profiler.py', r"comments = 'This attribute can be used as a key attribute.'"),
}


def plan(tier, seed):
    n = 400 if tier == 'quick' else 5000
    shards = [{'name': 'small_%d' % i, 'kind': 'small', 'n': n, 'seed': seed * 1000 + 300 + i}
              for i in range(6)]
    m = 6 if tier == 'quick' else 40
    shards += [{'name': 'big_%d' % i, 'kind': 'big', 'n': m, 'seed': seed * 1000 + 310 + i}
               for i in range(4)]
    return shards


def make_small(rng):
    n = rng.randint(1, 50)
    cols = {}
    k = rng.randint(1, 5)
    numeric_only = rng.random() < 0.2
    for c in range(k):
        if numeric_only:
            kind = rng.choice(['bigint_unique', 'float_nan', 'int_dup', 'bigint_unique', 'many_nan_float', 'int_unique'])
        else:
          kind = rng.choice(['int_unique', 'int_dup', 'float_nan', 'str', 'str_nan', 'obj_mixed', 'bool',
                           'str_unique', 'all_nan', 'unique_but_one_nan', 'Int64_na', 'boolean_na',
                           'Float64_na', 'string_na', 'Int64_unique_one_na', 'many_nan_float',
                           'categorical_unused', 'datetime_nat', 'bigint_unique', 'sorted_dup_gap',
                           'sorted_unique', 'sorted_desc_dup', 'timedelta_nat', 'sorted_float_dup_gap',
                           'sorted_str_dup', 'obj_distinct_nans', 'tz_dst', 'tz_dst', 'obj_bigint_nan'])
        name = 'c%d_%s' % (c, kind)
        if kind in ('sorted_dup_gap', 'sorted_desc_dup', 'sorted_float_dup_gap', 'sorted_unique'):
            # consecutive ids in sorted order; one id repeated and the next one skipped, so that first,
            # last, length, monotonicity and the sum of gaps all look like those of a unique column
            off = rng.choice([0, 1, -5, 1000])
            vals = [off + i for i in range(n)]
            if kind != 'sorted_unique' and n >= 3:
                for _ in range(rng.choice([1, 1, 2])):
                    i = rng.randint(1, n - 2)
                    vals[i] = vals[i - 1]
            if kind == 'sorted_desc_dup':
                vals = vals[::-1]
            cols[name] = pd.Series(vals, dtype='float64' if kind == 'sorted_float_dup_gap' else
                                   rng.choice(['int64', 'int32']))
        elif kind == 'tz_dst':
            # time-zone aware instants on both sides of the end of daylight saving time: different
            # instants that read the same on the local clock
            tz, start = rng.choice([('Europe/Berlin', '2021-10-31 00:30'), ('America/Chicago', '2022-11-06 00:15')])
            inst = list(pd.date_range(start, periods=max(n, 8), freq=rng.choice(['30min', '15min']), tz=tz))
            vals = [rng.choice(inst) for _ in range(n)] if rng.random() < 0.5 else inst[:n]
            if rng.random() < 0.4 and n > 2:
                vals[rng.randrange(n)] = pd.NaT
            cols[name] = pd.Series(vals)
        elif kind == 'obj_distinct_nans':
            # every missing cell is a NaN object of its own (float('nan') per cell, a float column
            # converted with astype(object)): still ONE missing value for the distinct count
            cols[name] = pd.Series([float('nan') if rng.random() < 0.4 else rng.choice(['x', 'y', 1, 2.5])
                                    for _ in range(n)], dtype=object)
        elif kind == 'sorted_str_dup':
            vals = sorted('k%04d' % rng.randint(0, 2 * n) for _ in range(n))
            cols[name] = pd.Series(vals, dtype=rng.choice([object, 'str']))
        elif kind == 'timedelta_nat':
            cols[name] = pd.Series([pd.NaT if rng.random() < 0.2 else pd.Timedelta(hours=rng.randint(0, 2 * n))
                                    for _ in range(n)], dtype='timedelta64[ns]')
        elif kind == 'obj_bigint_nan':
            # Python ints beyond 2**53 next to each other (no float64 tells them apart) with float NaN
            # cells in an object column: any numeric coercion collapses the distinct count
            base = 2 ** rng.choice([54, 60, 62])
            vals = [base + rng.randint(0, n) for _ in range(n)]
            for i in rng.sample(range(n), max(1, n // 5)):
                vals[i] = float('nan')
            cols[name] = pd.Series(vals, dtype=object)
        elif kind == 'bigint_unique':
            cols[name] = pd.Series([2 ** 53 + 1 + 2 * x for x in rng.sample(range(10 * n + 5), n)], dtype='int64')
        elif kind == 'int_unique':
            cols[name] = pd.Series(rng.sample(range(10 * n + 5), n), dtype='int64')
        elif kind == 'int_dup':
            cols[name] = pd.Series([rng.randint(0, max(1, n // 2)) for _ in range(n)], dtype='int64')
        elif kind == 'float_nan':
            cols[name] = pd.Series([np.nan if rng.random() < 0.3 else rng.choice([0.5, 1.5, 2.0, float(i)])
                                    for i in range(n)], dtype='float64')
        elif kind == 'str':
            cols[name] = pd.Series(['v%d' % rng.randint(0, n) for _ in range(n)], dtype='str')
        elif kind == 'str_nan':
            cols[name] = pd.Series([None if rng.random() < 0.25 else 'v%d' % rng.randint(0, n)
                                    for _ in range(n)], dtype=object)
        elif kind == 'obj_mixed':
            na = rng.choice([None, np.nan])     # one kind of missing marker per column
            cols[name] = pd.Series([rng.choice([na, na, 1, 'x', 2.5, 'y', i, '1', 1.0, True, '2.5', str(i), 0, False, '0'])
                                    for i in range(n)],
                                   dtype=object)
        elif kind == 'bool':
            cols[name] = pd.Series([rng.random() < 0.5 for _ in range(n)], dtype='bool')
        elif kind == 'Int64_na':
            cols[name] = pd.array([pd.NA if rng.random() < 0.3 else rng.randint(0, n) for _ in range(n)],
                                  dtype='Int64')
        elif kind == 'boolean_na':
            cols[name] = pd.array([pd.NA if rng.random() < 0.3 else (rng.random() < 0.5) for _ in range(n)],
                                  dtype='boolean')
        elif kind == 'Float64_na':
            cols[name] = pd.array([pd.NA if rng.random() < 0.3 else rng.choice([0.5, 1.5, float(i)])
                                   for i in range(n)], dtype='Float64')
        elif kind == 'string_na':
            cols[name] = pd.array([pd.NA if rng.random() < 0.3 else 'v%d' % rng.randint(0, n)
                                   for _ in range(n)], dtype='string')
        elif kind == 'Int64_unique_one_na':
            vals = rng.sample(range(10 * n + 5), n)
            vals[rng.randrange(n)] = pd.NA
            cols[name] = pd.array(vals, dtype='Int64')
        elif kind == 'categorical_unused':
            cats = ['c%d' % i for i in range(6)]
            vals = [None if rng.random() < 0.2 else rng.choice(cats[:3]) for _ in range(n)]
            cols[name] = pd.Categorical(vals, categories=cats)      # three declared categories never occur
        elif kind == 'datetime_nat':
            base = pd.Timestamp('2020-01-01')
            cols[name] = pd.Series([pd.NaT if rng.random() < 0.2 else base + pd.Timedelta(days=rng.randint(0, n))
                                    for _ in range(n)])
        elif kind == 'many_nan_float':
            cols[name] = pd.Series([np.nan if rng.random() < 0.6 else float(rng.randint(0, 3)) for _ in range(n)],
                                   dtype='float64')
        elif kind == 'str_unique':
            cols[name] = pd.Series(['u%d' % i for i in rng.sample(range(10 * n + 5), n)], dtype=object)
        elif kind == 'all_nan':
            cols[name] = pd.Series([np.nan] * n, dtype=rng.choice(['float64', object]))
        else:
            vals = ['u%d' % i for i in range(n)]
            vals[rng.randrange(n)] = None
            cols[name] = pd.Series(vals, dtype=object)
    df = pd.DataFrame(cols)
    if rng.random() < 0.08:
        # a column the profile is never asked about holds unhashable cells (a pre-tokenized column of lists)
        df['zz_tokens_unhashable'] = pd.Series([['t%d' % i, 'x'] for i in range(n)], dtype=object).values
    elif rng.random() < 0.04:
        # tuple labels in a flat Index (frame.columns.to_flat_index() after a pivot / groupby-agg)
        df.columns = pd.Index([(str(c), i) for i, c in enumerate(df.columns)], tupleize_cols=False)
    elif rng.random() < 0.05:
        # a pivoted wide table: the column labels are days (datetime64[ns]) or durations
        if rng.random() < 0.5:
            df.columns = pd.DatetimeIndex(np.array([np.datetime64('2020-01-01', 'ns') + np.timedelta64(i, 'D')
                                                    for i in range(len(df.columns))]))
        else:
            df.columns = pd.to_timedelta(np.arange(len(df.columns)), unit='D').astype('timedelta64[ns]')
    r = rng.random()
    if r < 0.3:
        df.index = rng.sample(range(1000, 1000 + 10 * n), n)
    elif r < 0.45:
        df.index = [i % 3 for i in range(n)]          # repeated labels
    return df


def make_big(rng):
    n = rng.choice([20001, 25000, 33333, 50000, 100000, 200000])
    base = np.arange(n)
    cols = {}
    a = base.copy()
    cols['unique_int'] = a
    b = base.copy()
    i, j = rng.sample(range(n), 2)
    b[i] = b[j]
    cols['one_dup'] = b
    c = base.astype('float64')
    c[rng.randrange(n)] = np.nan
    cols['one_missing'] = c
    d = base.astype('float64')
    i, j, k = rng.sample(range(n), 3)
    d[i] = d[j]
    d[k] = np.nan
    cols['one_dup_one_missing'] = d
    g = base.copy()
    i = rng.randint(1, n - 2)
    g[i] = g[i - 1]                     # sorted, one id repeated and the next skipped
    cols['sorted_dup_gap'] = g
    s = pd.Series(['s%d' % x for x in base], dtype=object)
    s.iloc[rng.randrange(n)] = None
    cols['str_one_missing'] = s
    t = pd.Series(['s%d' % x for x in base], dtype='str')
    cols['str_unique'] = t
    e = base.astype('float64')
    for x in rng.sample(range(n), 2):
        e[x] = np.nan
    cols['two_missing'] = e
    return pd.DataFrame(cols)


def reference_counts(series):
    vals = series.tolist()
    missing = sum(1 for v in vals if model.is_missing(v))
    distinct = set()
    for v in vals:
        if model.is_missing(v):
            continue
        distinct.add((type(v).__name__ if isinstance(v, (str, bool)) else 'num', v))
    # pandas' unique() treats 1 and 1.0 and True in an object column as separate Python objects only
    # if they hash/compare differently; they compare equal, so fold numbers by value
    folded = set()
    for tname, v in distinct:
        folded.add(v if tname != 'str' else ('s', v))
    n_unique = len(folded) + (1 if missing else 0)
    return n_unique, missing


CELL = re.compile(r'^(\d+) \((-?\d+(?:\.\d+)?)%\)$')


def check_profile(rec, case, df, attrs, out, tag):
    exp_attrs = list(df.columns) if attrs is None else list(attrs)
    if not isinstance(out, pd.DataFrame):
        rec.violation('shape', tag + 'returned %s' % type(out).__name__, case=case)
        return 0
    if list(out.index) != exp_attrs:
        rec.violation('shape', tag + 'profile rows %r, expected one per attribute %r' % (list(out.index), exp_attrs),
                      case=case)
        return 0
    for col in ('Unique values', 'Missing values', 'Comments'):
        if col not in out.columns:
            rec.violation('shape', tag + 'column %r missing from the profile' % col, case=case)
            return 0
    n = len(df)
    interesting = 0
    for pos, attr in enumerate(exp_attrs):
        row = out.iloc[pos]
        nu, nm = reference_counts(df[attr])
        rec.count('attributes_checked')
        for label, cell, want in (('Unique values', row['Unique values'], nu),
                                  ('Missing values', row['Missing values'], nm)):
            m = CELL.match(str(cell))
            if not m:
                rec.violation('format', tag + 'attribute %r: %s cell %r is not "N (P%%)"' % (attr, label, cell),
                              case=case)
                continue
            got_n, got_p = int(m.group(1)), float(m.group(2))
            if got_n != want:
                rec.violation('count', tag + 'attribute %r (%d rows): %s reports %d, the column has %d'
                              % (attr, n, label, got_n, want), case=case)
            if abs(got_p - 100.0 * want / n) > 0.005 + 1e-9:
                rec.violation('percentage', tag + 'attribute %r: %s reports %r%% for %d of %d rows'
                              % (attr, label, got_p, want, n), case=case)
        comment = str(row['Comments'])
        is_key = (nu == n and nm == 0)
        if (KEY_TEXT in comment) != is_key:
            rec.violation('key_comment', tag + 'attribute %r (%d rows, %d distinct, %d missing): comment %r '
                          '%s recommend it as a key' % (attr, n, nu, nm, comment,
                                                        'should' if is_key else 'must not'), case=case)
        if (MISS_TEXT in comment) != (nm > 0):
            rec.violation('missing_comment', tag + 'attribute %r (%d rows, %d missing): comment %r %s warn '
                          'about ignored rows' % (attr, n, nm, comment, 'should' if nm > 0 else 'must not'),
                          case=case)
        if nm > 0 or nu < n:
            interesting += 1
        if n > 20000 and (nm in (1, 2) or nu == n - 1):
            rec.count('rounding_sensitive_attributes')
    return interesting


def run_case(case, rec, ssj=None):
    ssj = ssj or env.load()
    rng = random.Random(case['seed'])
    df = make_small(rng) if case['gen'] == 'small' else make_big(rng)
    cols = [c for c in df.columns if 'unhashable' not in str(c)]
    unhashable = len(cols) != len(df.columns)
    r = rng.random()
    if unhashable and r < 0.4:
        r = 0.5          # (profiling the list column itself cannot work: always name the attributes)
    if r < 0.4:
        attrs = None
    elif r < 0.8:
        attrs = rng.sample(cols, rng.randint(1, len(cols)))
    else:
        attrs = [rng.choice(cols) for _ in range(rng.randint(1, 4))]
    # other list-likes a caller computes the selection with; an empty selection profiles nothing
    form = rng.random()
    if attrs is not None:
        if form < 0.06:
            attrs = []
        elif form < 0.14:
            attrs = tuple(attrs)
        elif form < 0.20:
            attrs = pd.Index(attrs)
        elif form < 0.26:
            arr = np.empty(len(attrs), dtype=object)
            for i_, a_ in enumerate(attrs):
                arr[i_] = a_
            attrs = arr
        elif form < 0.30 and len(cols) > 1 and not unhashable:
            attrs = df.columns[1:]
        elif form < 0.36 and not unhashable:
            attrs = df.columns          # the table's own Index object
    rec.add('profile_attrs_forms', type(attrs).__name__)
    snap = T.snapshot_df(df) if len(df) < 100 else None
    tag = 'profile_table_for_join(%d rows, attrs=%r): ' % (len(df), attrs)
    try:
        if attrs is None and rng.random() < 0.6:
            out = ssj.profile_table_for_join(df)            # argument omitted
        else:
            out = ssj.profile_table_for_join(df, attrs)
    except Exception as e:
        rec.violation('raises', tag + 'raised %s: %s' % (type(e).__name__, str(e)[:200]), case=case)
        return 0
    n = check_profile(rec, case, df, attrs, out, tag)
    if snap is not None and T.snapshot_df(df) != snap:
        rec.violation('input_modified', tag + 'modified its input table', case=case)
    return n


def run_shard(shard, rec):
    ssj = env.load()
    monitors.import_repo_modules()
    reach = monitors.Reach()
    reach.start()
    for i in range(shard['n']):
        case = {'gen': shard['kind'], 'seed': shard['seed'] * 100000 + i}
        n = run_case(case, rec, ssj)
        rec.case(sig=(shard['kind'], case['seed']), nontrivial=n > 0)
        if i == 0:
            rng = random.Random(case['seed'])
            df = make_small(rng) if shard['kind'] == 'small' else make_big(rng)
            rec.sample({'rows': len(df), 'columns': list(df.columns), 'dtypes': [str(t) for t in df.dtypes],
                        'head': [[model.canon_cell(v) for v in r] for r in df.head(3).values.tolist()]}, limit=1)
    reach.stop()
    for k, v in reach.anchors(ANCHORS).items():
        rec.reach[k] = v


def finalize(agg, tier):
    c = agg['counters']
    if c.get('attributes_checked', 0) == 0:
        agg['inconclusive'].append('no attribute profile was checked')
    if c.get('rounding_sensitive_attributes', 0) == 0:
        agg['inconclusive'].append('no attribute in the >20000-row rounding regime was checked')


def coverage_extra(agg, tier):
    c = agg['counters']
    return {'attributes_checked': c.get('attributes_checked', 0),
            'rounding_sensitive_attributes(>20000 rows, one duplicate or one/two missing)':
                c.get('rounding_sensitive_attributes', 0)}
