"""C06 -- filter_candset is row-wise filter_pair; OverlapFilter is exact.

O1 (consistency of two real code paths): filter_candset's output must be exactly the positional
selection of the candidate-set rows whose referenced values the same filter's filter_pair does not
drop -- same columns, order, index labels, values.
O2 (independent, exact): OverlapFilter.filter_pair keeps a pair iff both strings are non-empty and
op(|X∩Y|, size); filter_tables (set tokenizer) lists exactly those pairs, _sim_score = overlap."""
import random

from rv import env, gen, model, monitors, oracle
from rv import tables as T

PROPERTY = 'C06'
LEVEL = 'exploration'
RULE = ('cases = seeded random (filter kind, measure, parameters, tables, candidate set, n_jobs): '
        'filter_candset output vs per-row filter_pair (O1); OverlapFilter filter_pair / filter_tables '
        'vs the model overlap for sizes 1..5 and operators >=,>,= (O2), incl. exhaustive small token '
        'universes. Non-trivial = candidate set non-empty with at least one present pair (O1) / at '
        'least one pair with a common token (O2); distinct = case seed.')
ASSUMPTIONS = ['py_stringmatching tokenizers are trusted', 'O1 uses the real filter_pair as reference '
               '(its own correctness is C04/C14/C08/C09)']
SHARD_TIMEOUT = {'quick': 600, 'thorough': 3600}

ANCHORS = {
    'candset.mask': ('py_stringsimjoin/filter/filter.py', r'valid_rows.append\(not filter_object.filter_pair'),
    'candset.parallel': ('py_stringsimjoin/filter/filter.py', r'candset_splits = split_table\(candset, n_jobs\)'),
    'candset.empty': ('py_stringsimjoin/filter/filter.py', r'return candset$'),
    'overlap.tables.compare': ('py_stringsimjoin/filter/overlap_filter.py', r'if comp_fn\(overlap, overlap_filter.overlap_size\)'),
    'overlap.pair.empty': ('py_stringsimjoin/filter/overlap_filter.py', r'if \(not lstring\) or \(not rstring\)'),
}


def plan(tier, seed):
    n = 1200 if tier == 'quick' else 8000
    shards = [{'name': 'cs_%d' % i, 'kind': 'cs', 'n': n, 'seed': seed * 1000 + 70 + i}
              for i in range(7)]
    shards += [{'name': 'ovx_%d' % i, 'kind': 'ovx', 'n': n, 'seed': seed * 1000 + 80 + i}
               for i in range(5)]
    shards.append({'name': 'ovu', 'kind': 'ovu', 'V': 4 if tier == 'quick' else 5})
    shards.append({'name': 'loky', 'kind': 'cs', 'n': 20 if tier == 'quick' else 200,
                   'seed': seed * 1000 + 89, 'backend': 'loky'})
    return shards


def random_fspec(rng):
    kind = rng.choice(T.FILTERS)
    if kind == 'OverlapFilter':
        return {'kind': kind, 'overlap_size': rng.choice([1, 1, 2, 3, 1.5, 0.5, 2.0]),
                'comp_op': rng.choice(['>=', '>', '=']), 'allow_missing': rng.random() < 0.4}
    measure = rng.choice(['JACCARD', 'COSINE', 'DICE', 'OVERLAP', 'EDIT_DISTANCE'])
    if measure == 'OVERLAP':
        t = rng.choice([1, 2, 3, 1.0, 1.5, 2.5])
    elif measure == 'EDIT_DISTANCE':
        t = rng.choice([0, 1, 2, 3, 1.0, 0.5, 2.5])
    else:
        t = gen.random_threshold(rng)
    return {'kind': kind, 'measure': measure, 'threshold': t, 'allow_empty': rng.random() < 0.6,
            'allow_missing': rng.random() < 0.4, 'measure_spelling': gen.spell(rng, measure)}


def run_case(case, rec, ssj=None):
    ssj = ssj or env.load()
    rng = random.Random(case.get('seed', 0))
    g = case['gen']
    if g == 'cs':
        fspec = random_fspec(rng)
        ed = fspec.get('measure') == 'EDIT_DISTANCE'
        tok = gen.random_tokenizer(rng, qgram_only=ed)
        if ed:
            tok['return_set'] = False
        L, R, tok = gen.random_table_pair(rng, tok=tok, max_rows=8, missing=0.15)
        C = gen.random_candset(rng, L, R, 'lid', 'rid')
        n_jobs = rng.choice([1, 1, 2, 3, 5, 40, -1])
        call = {'api': 'filter_candset', 'filter': fspec, 'ltable': L, 'rtable': R, 'candset': C,
                'c_l_key': 'l_lid', 'c_r_key': 'r_rid', 'l_key': 'lid', 'r_key': 'rid',
                'l_attr': 'lattr', 'r_attr': 'rattr', 'tok': tok, 'n_jobs': n_jobs}
        if case.get('backend'):
            call['backend'] = case['backend']
            call['n_jobs'] = rng.choice([2, 3])
        tk = T.make_tokenizer(tok)
        flt = T.make_filter(ssj, fspec, tk)
        selfjoin = rng.random() < 0.12
        if selfjoin:
            # the SAME DataFrame object is both tables; the two filter attributes differ
            R = L
            C = gen.random_candset(rng, L, L, 'lid', 'lid')
            C['cols'] = ['r_rid' if c == 'r_lid' else c for c in C['cols']]
            C['data']['r_rid'] = C['data'].pop('r_lid')
            if 'r_lid' in C.get('dtypes', {}):
                C['dtypes']['r_rid'] = C['dtypes'].pop('r_lid')
            L = dict(L)
            L['data'] = dict(L['data'])
            L['cols'] = list(L['cols']) + ['lattr2']
            vals = list(L['data']['lattr'])
            rng.shuffle(vals)
            L['data']['lattr2'] = vals
            L['dtypes'] = dict(L['dtypes'], lattr2=L['dtypes'].get('lattr', 'object'))
            rkey2 = 'lid'
            if rng.random() < 0.5:
                # ... and a second key column holding the same ids in another order is the right key
                ids2 = list(L['data']['lid'])
                rng.shuffle(ids2)
                L['cols'] = L['cols'] + ['lid2']
                L['data']['lid2'] = ids2
                if 'lid' in L['dtypes']:
                    L['dtypes']['lid2'] = L['dtypes']['lid']
                rkey2 = 'lid2'
                rec.count('selfjoin_two_key_columns')
            R = L
            call.update(ltable=L, rtable=L, candset=C, r_key=rkey2, r_attr='lattr2')
        Cdf = T.make_table(C)
        objs = {'tok': tk, 'filter': flt, 'candset': Cdf}
        if selfjoin:
            objs['ltable'] = objs['rtable'] = T.make_table(L)
        try:
            out = T.exec_call(ssj, call, objs)
        except Exception as e:
            rec.count('calls_raised')
            rec.add('raised', '%s: %s' % (type(e).__name__, str(e)[:80]))
            return {'present': 0, 'call': call}
        lrow = dict((model.canon_cell(k), i) for i, k in enumerate(T.column(L, call['l_key'])))
        rrow = dict((model.canon_cell(k), i) for i, k in enumerate(T.column(R, call['r_key'])))
        mask, present = [], 0
        for x in range(T.spec_len(C)):
            lv = L['data'][call['l_attr']][lrow[model.canon_cell(C['data']['l_lid'][x])]]
            rv = R['data'][call['r_attr']][rrow[model.canon_cell(C['data']['r_rid'][x])]]
            if not (model.is_missing(lv) or model.is_missing(rv)):
                present += 1
            mask.append(not flt.filter_pair(lv, rv))
            rec.count('filter_pair_reference_calls')
        exp = Cdf.iloc[[i for i, m in enumerate(mask) if m]]
        ok = (list(out.columns) == list(exp.columns) and
              [repr(i) for i in out.index] == [repr(i) for i in exp.index] and
              model.canon_rows(out, drop=()) == model.canon_rows(exp, drop=()))
        rec.count('candset_rows', len(mask))
        rec.count('candset_rows_kept', sum(mask))
        if not ok:
            rec.violation('candset', '%s filter_candset(n_jobs=%r): got index %r rows %r; expected '
                          'index %r rows %r' % (
                              fspec, call['n_jobs'], list(out.index)[:8],
                              model.canon_rows(out, drop=())[:4], list(exp.index)[:8],
                              model.canon_rows(exp, drop=())[:4]), case=case)
        return {'present': present, 'call': call}
    if g == 'ovx':
        tok = gen.random_tokenizer(rng, allow_bag=False)
        L, R, tok = gen.random_table_pair(rng, tok=tok, max_rows=9, missing=0.1)
        # (validation accepts any positive number: fractional sizes are valid and decide like the
        #  comparison against the integer overlap says)
        size = rng.choice([1, 1, 2, 3, 4, 5, 1.5, 2.5, 0.5, 3.0, 2.000001])
        op = rng.choice(['>=', '>', '='])
        return overlap_exact(ssj, rec, case, L, R, tok, size, op, 'lid', 'rid', 'lattr', 'rattr',
                             n_jobs=rng.choice([1, 1, 2, 3]), allow_missing=rng.random() < 0.3,
                             bag_pairs=rng.random() < 0.3)
    if g == 'ovu':
        # exhaustive: every non-empty subset of a V-token vocabulary on both sides (+ '' and blank)
        V = case['V']
        vocab = ['t%d' % i for i in range(V)]
        vals = ['', ' ']
        for mask in range(1, 2 ** V):
            vals.append(' '.join(v for b, v in enumerate(vocab) if mask >> b & 1))
        L = T.table_spec(['id', 's'], [[i, v] for i, v in enumerate(vals)], dtypes={'s': 'object'})
        R = T.table_spec(['id', 's'], [[i, v] for i, v in enumerate(vals)], dtypes={'s': 'object'})
        return overlap_exact(ssj, rec, case, L, R, {'kind': 'ws', 'return_set': True}, case['size'],
                             case['op'], 'id', 'id', 's', 's', n_jobs=case.get('n_jobs', 1))
    raise ValueError(g)


def overlap_exact(ssj, rec, case, L, R, tok, size, op, lk, rk, la, ra, n_jobs=1, allow_missing=False,
                  bag_pairs=False):
    fspec = {'kind': 'OverlapFilter', 'overlap_size': size, 'comp_op': op,
             'allow_missing': allow_missing}
    call = {'api': 'filter_tables', 'filter': fspec, 'ltable': L, 'rtable': R, 'l_key': lk,
            'r_key': rk, 'l_attr': la, 'r_attr': ra, 'tok': tok, 'n_jobs': n_jobs,
            'out_sim_score': True}
    view = oracle.TableView(call)
    fn = model.OPS[op]
    ov = view.overlaps()
    exp = {}
    for (i, j), o in ov.items():
        if fn(o, size):
            exp[(i, j)] = o
    try:
        df = T.exec_call(ssj, call)
    except Exception as e:
        rec.count('calls_raised')
        rec.add('raised', '%s: %s' % (type(e).__name__, str(e)[:80]))
        return {'present': len(ov), 'call': call}
    got = {}
    listed_missing = {}
    miss = view.missing_pairs()
    for (i, j, score, lkey, rkey) in oracle.result_pairs(df, call, view):
        if i is None or j is None:
            rec.violation('overlap_tables', 'unknown key pair (%r, %r)' % (lkey, rkey), case=case)
            continue
        if (i, j) in miss:
            listed_missing[(i, j)] = listed_missing.get((i, j), 0) + 1
            continue
        if (i, j) in got:
            rec.violation('overlap_tables', 'pair (%r, %r) listed twice' % (lkey, rkey), case=case)
        got[(i, j)] = score
    # pairs with a missing side: filter_pair keeps them iff allow_missing, so filter_tables lists exactly them
    rec.count('overlap_tables_missing_pairs', len(miss) if allow_missing else 0)
    for p in miss:
        n_listed = listed_missing.get(p, 0)
        if n_listed != (1 if allow_missing else 0):
            rec.violation('overlap_tables', 'OverlapFilter(size=%r, %s, allow_missing=%r).filter_tables lists the '
                          'pair (%r, %r) with a missing value %d times' % (size, op, allow_missing, view.lkeys[p[0]],
                                                                            view.rkeys[p[1]], n_listed), case=case)
            break
    for p in set(exp) | set(got):
        if view.lvals[p[0]] == '' or view.rvals[p[1]] == '':
            # '' has tokens under a padded q-gram tokenizer: filter_pair must drop such a pair
            # (both strings non-empty is part of C06), C04 demands it is kept -> filter_tables is not
            # judged on it (DESIGN.md §8)
            rec.count('empty_string_pairs_not_judged')
            continue
        if p not in got:
            rec.violation('overlap_tables', 'OverlapFilter(size=%r, %s).filter_tables does not list '
                          '(%r, %r) with overlap %d: l=%r r=%r' % (
                              size, op, view.lkeys[p[0]], view.rkeys[p[1]], exp[p],
                              view.lvals[p[0]], view.rvals[p[1]]), case=case)
        elif p not in exp:
            rec.violation('overlap_tables', 'OverlapFilter(size=%r, %s).filter_tables lists (%r, %r) '
                          'whose overlap is %d: l=%r r=%r' % (
                              size, op, view.lkeys[p[0]], view.rkeys[p[1]], ov.get(p, 0),
                              view.lvals[p[0]], view.rvals[p[1]]), case=case)
        elif not oracle._same_number(got[p], exp[p]):
            rec.violation('overlap_tables', '_sim_score %r for (%r, %r), overlap is %d' % (
                got[p], view.lkeys[p[0]], view.rkeys[p[1]], exp[p]), case=case)
    rec.count('overlap_tables_pairs', len(exp))
    oracle.check_ids(df, rec, case=case)
    # filter_pair on every present pair (bag-mode tokenizer on a sample: overlap() dedups)
    tspec = dict(tok)
    if bag_pairs:
        tspec['return_set'] = False
    flt = T.make_filter(ssj, fspec, T.make_tokenizer(tspec))
    for i, lv in enumerate(view.lvals):
        if view.lmiss[i]:
            continue
        for j, rv in enumerate(view.rvals):
            if view.rmiss[j]:
                continue
            want_keep = bool(lv) and bool(rv) and fn(ov.get((i, j), 0), size)
            dropped = flt.filter_pair(lv, rv)
            rec.count('overlap_pair_calls')
            if bool(dropped) == want_keep:
                rec.violation('overlap_pair', 'OverlapFilter(size=%r, %s).filter_pair(%r, %r) '
                              'returned dropped=%r; overlap is %d' % (size, op, lv, rv, dropped,
                                                                        ov.get((i, j), 0)), case=case)
    return {'present': len(ov), 'call': call}


def run_shard(shard, rec):
    ssj = env.load()
    monitors.import_repo_modules()
    reach = monitors.Reach()
    reach.start()
    contracts = monitors.Contracts()
    contracts.attach_split_table()
    if shard['kind'] == 'ovu':
        for size in (1, 2, 3, 4, 5):
            for op in ('>=', '>', '='):
                for nj in (1, 3):
                    case = {'gen': 'ovu', 'V': shard['V'], 'size': size, 'op': op, 'n_jobs': nj}
                    st = run_case(case, rec, ssj)
                    rec.case(sig=('ovu', shard['V'], size, op, nj), nontrivial=st['present'] > 0)
        rec.sample({'workload': 'OVU', 'vocabulary': shard['V'], 'values_per_side': 2 ** shard['V'] + 1,
                    'sizes': [1, 2, 3, 4, 5], 'ops': ['>=', '>', '=']}, limit=1)
    else:
        for i in range(shard['n']):
            case = {'gen': shard['kind'], 'seed': shard['seed'] * 100000 + i}
            if shard.get('backend'):
                case['backend'] = shard['backend']
            st = run_case(case, rec, ssj)
            rec.case(sig=(shard['kind'], case['seed'], shard.get('backend')),
                     nontrivial=st['present'] > 0)
            f = st['call']['filter']
            rec.add('filter', (f['kind'], f.get('measure'), f.get('comp_op')))
            rec.add('n_jobs', st['call']['n_jobs'])
            if i == 0:
                rec.sample({'workload': shard['kind'], 'filter': f, 'tok': st['call']['tok'],
                            'n_jobs': st['call']['n_jobs'],
                            'candset_head': T.spec_rows(st['call']['candset'])[:3]
                            if 'candset' in st['call'] else None}, limit=1)
    reach.stop()
    for k, v in reach.anchors(ANCHORS).items():
        rec.reach[k] = v
    cs = contracts.summary()
    for k, v in cs['evaluations'].items():
        rec.count('contract_evals.' + k, v)
    for k, v in cs['anomalies'].items():
        rec.count('contract_anomalies.' + k, v)
    contracts.detach()


def finalize(agg, tier):
    c = agg['counters']
    if c.get('candset_rows', 0) == 0:
        agg['inconclusive'].append('no candidate-set row was compared (O1)')
    if c.get('overlap_pair_calls', 0) == 0 or c.get('overlap_tables_pairs', 0) == 0:
        agg['inconclusive'].append('the OverlapFilter exactness oracle saw nothing (O2)')


def coverage_extra(agg, tier):
    c = agg['counters']
    return {'candset_rows_compared': c.get('candset_rows', 0),
            'overlap_filter_pair_calls': c.get('overlap_pair_calls', 0),
            'overlap_filter_tables_pairs': c.get('overlap_tables_pairs', 0),
            'exhaustive_subspaces': ['OVU: every subset of a %d-token vocabulary (plus empty and blank '
                                     'strings) on both sides x sizes 1..5 x {>=,>,=}'
                                     % (4 if tier == 'quick' else 5)]}
