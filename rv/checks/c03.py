"""C03 -- edit-distance join: sound, exact distance, complete up to the documented gap.

Deciding oracle (boundary): own Levenshtein DP on all present pairs: no returned pair violates the
comparison, each key pair at most once, _sim_score == distance, and every pair that satisfies the
comparison and whose q-gram bags (fresh tokenizer) intersect is returned."""
import itertools
import random

from rv import env, gen, model, monitors, oracle
from rv import tables as T

PROPERTY = 'C03'
LEVEL = 'exploration'
RULE = ('cases = real edit_distance_join executions: U exhaustive universes (all strings over a small '
        'alphabet up to a length bound on both sides) x thresholds x q x padding x set/bag tokenizer x '
        'operator; NB seeded mutation neighbourhoods (random strings incl. pad characters, unicode, '
        'strings shorter than q, and their <=k+1-edit neighbours) in random table contexts; ONE 1x1 '
        'tables (shared q-grams are the most frequent = last in order); LARGE tables of 1100 to 6000 rows '
        'with planted pairs (every output row judged exactly, completeness on the planted pairs). Non-trivial = at least one '
        'pair satisfies the comparison and shares a q-gram; distinct = distinct (universe|seed, q, '
        'padding, mode, k, op).')
ASSUMPTIONS = ['py_stringmatching QgramTokenizer is trusted (fresh instance = reference q-gram bags)',
               'own Levenshtein DP in rv/model.py is the distance reference',
               'thresholds are integral as the property states']
SHARD_TIMEOUT = {'quick': 600, 'thorough': 3600}
DECIDE = {'sound', 'once', 'score', 'keys', 'complete'}

ANCHORS = {
    'edit.length_filter': ('py_stringsimjoin/join/edit_distance_join_py.py', r'if r_len - threshold <= l_join_attr_list\[cand\]'),
    'edit.verify': ('py_stringsimjoin/join/edit_distance_join_py.py', r'edit_dist = sim_fn\('),
    'edit.flag_off': ('py_stringsimjoin/join/edit_distance_join_py.py', r'tokenizer.set_return_set\(False\)'),
    'prefix_filter.find': ('py_stringsimjoin/filter/prefix_filter.py', r'candidates.update\(prefix_index.probe'),
    'prefix_index.post': ('py_stringsimjoin/index/prefix_index.py', r'self.index.get\(token\).append\(row_id\)'),
}


def universe(alpha, maxlen):
    out = ['']
    for n in range(1, maxlen + 1):
        out.extend(''.join(p) for p in itertools.product(alpha, repeat=n))
    return out


def plan(tier, seed):
    shards = []
    if tier == 'quick':
        unis = [('ab', 7), ('abc', 4)]
        qs, ks = (1, 2, 3), (0, 1, 2, 3)
    else:
        unis = [('ab', 8), ('abc', 5), ('abcd', 4), ('a#', 6), ('a$b', 4)]
        qs, ks = (1, 2, 3, 4), (0, 1, 2, 3, 4)
    configs = []
    for (alpha, ml) in unis:
        for q in qs:
            for pad in (True, False):
                for rs in (True, False):
                    configs.append({'alpha': alpha, 'maxlen': ml, 'q': q, 'padding': pad,
                                    'return_set': rs, 'ks': list(ks)})
    nsh = 10
    for i in range(nsh):
        shards.append({'name': 'u_%d' % i, 'kind': 'u', 'configs': configs[i::nsh]})
    n = 700 if tier == 'quick' else 8000
    for i in range(5):
        shards.append({'name': 'nb_%d' % i, 'kind': 'nb', 'n': n, 'seed': seed * 1000 + 30 + i})
    shards.append({'name': 'seq', 'kind': 'seq', 'n': 300 if tier == 'quick' else 4000,
                   'seed': seed * 1000 + 38})
    shards.append({'name': 'large', 'kind': 'large', 'sizes': [1100, 2300] if tier == 'quick' else
                   [600, 1100, 2300, 4100, 6000], 'seed': seed * 1000 + 37})
    shards.append({'name': 'one', 'kind': 'one', 'n': 3000 if tier == 'quick' else 40000,
                   'seed': seed * 1000 + 39})
    return shards


def edit(rng, s, alpha):
    r = rng.random()
    if r < 0.34 and s:
        i = rng.randrange(len(s))
        return s[:i] + s[i + 1:]
    if r < 0.67:
        i = rng.randint(0, len(s))
        return s[:i] + rng.choice(alpha) + s[i:]
    if s:
        i = rng.randrange(len(s))
        return s[:i] + rng.choice(alpha) + s[i + 1:]
    return rng.choice(alpha)


ALPHAS = ['ab', 'abc', 'abcdefgh', 'ab#$', 'aé日b', 'ab ', 'abcdefghijklmnopqrstuvwxyz', 'e\u0301\u00e9a', 'a#$^!']


def nb_call(rng):
    alpha = rng.choice(ALPHAS)
    q = rng.choice([1, 2, 2, 2, 3, 3, 4])
    k = rng.choice([0, 1, 1, 2, 2, 3, 4])
    pad = rng.random() < 0.6
    tok = {'kind': 'qgram', 'q': q, 'padding': pad, 'return_set': rng.random() < 0.5}
    if rng.random() < 0.15:
        tok['prefix_pad'], tok['suffix_pad'] = rng.choice([('^', '!'), ('a', 'b'), ('#', '#')])
    nl, nr = rng.randint(1, 10), rng.randint(1, 10)
    base = []
    for _ in range(rng.randint(1, 4)):
        n = rng.choice([0, 1, 2, 3, 5, 8, 12, 20, 30])
        if rng.random() < 0.12:
            # strings around and beyond machine-word sizes (64 / 128 characters): bit-parallel or
            # banded distance implementations change behaviour there
            n = rng.choice([63, 64, 65, 66, 100, 128, 129, 200])
        if rng.random() < 0.1:      # periodic strings: edits inside runs are ambiguous alignments
            unit = rng.choice([alpha[0], alpha[:2], alpha[:3]])
            base.append((unit * 30)[:rng.choice([16, 18, 24, 33])])
            continue
        base.append(''.join(rng.choice(alpha) for _ in range(n)))

    def near():
        s = rng.choice(base)
        for _ in range(rng.randint(0, k + 1)):
            s = edit(rng, s, alpha)
        return s
    lv = [near() for _ in range(nl)]
    rv = [near() for _ in range(nr)]
    for vals in (lv, rv):
        for i in range(len(vals)):
            if rng.random() < 0.08:
                vals[i] = None if rng.random() < 0.5 else gen.NAN
    shifted = rng.random() < 0.08 and len(alpha) >= 4
    if shifted:
        # the only common q-grams sit at opposite ends: 'ab'+'xy' vs 'zw'+'ab' (distance = length)
        core = alpha[:2] * (1 if q <= 2 else 2)
        x1, x2 = alpha[2] * len(core), alpha[3] * len(core)
        lv = [core + x1, core + x2, x1 + core][:max(1, nl)] + lv[3:]
        rv = [x2 + core, x1 + core, core + x2][:max(1, nr)] + rv[3:]
        k = rng.choice([2 * len(core), 2 * len(core) + 1, 2 * len(core) + 2])
    L = T.table_spec(['lid', 'lattr', 'lx'], [[i * 2 + 1, v, 'x%d' % i] for i, v in enumerate(lv)],
                     dtypes={'lattr': 'object', 'lx': 'object'})
    if rng.random() < 0.1:
        # a column of the caller's own named like a helper the join might add: '<join attr>_len'
        L['cols'].append('lattr_len')
        L['data']['lattr_len'] = [0 if model.is_missing(v) else len(v.split()) + 7 for v in lv]
        L['dtypes']['lattr_len'] = 'int64'
    R = T.table_spec(['rid', 'rattr'], [['R%d' % i, v] for i, v in enumerate(rv)],
                     dtypes={'rattr': 'object', 'rid': 'object'})
    call = {'api': 'edit_distance_join', 'ltable': L, 'rtable': R, 'l_key': 'lid', 'r_key': 'rid',
            'l_attr': 'lattr', 'r_attr': 'rattr', 'tok': tok, 'threshold': k,
            'comp_op': rng.choice(['<=', '<=', '<', '=']), 'allow_missing': rng.random() < 0.3,
            'out_sim_score': rng.random() < 0.8, 'n_jobs': rng.choice([1, 1, 2, 3]),
            'l_out_attrs': rng.choice([None, ['lx'], ['lattr', 'lx']]),
            'r_out_attrs': rng.choice([None, ['rattr']])}
    if 'lattr_len' in L['cols']:
        call['l_out_attrs'] = rng.choice([['lattr_len'], ['lattr_len', 'lx'], ['lx', 'lattr_len']])
    if shifted:
        call['comp_op'] = rng.choice(['<', '=', '<='])
        call['threshold'] = k
    if rng.random() < 0.1:
        call['threshold'] = float(call['threshold'])
    return call


def one_call(rng):
    alpha = rng.choice(ALPHAS[:4])
    q = rng.choice([1, 2, 3])
    k = rng.choice([0, 1, 2, 3])
    s = ''.join(rng.choice(alpha) for _ in range(rng.choice([0, 1, 2, 3, 4, 6, 9, 14])))
    t = s
    for _ in range(rng.randint(0, k + 1)):
        t = edit(rng, t, alpha)
    tok = {'kind': 'qgram', 'q': q, 'padding': rng.random() < 0.5, 'return_set': rng.random() < 0.5}
    L = T.table_spec(['id', 's'], [[0, s]], dtypes={'s': 'object'})
    R = T.table_spec(['id', 's'], [[0, t]], dtypes={'s': 'object'})
    return {'api': 'edit_distance_join', 'ltable': L, 'rtable': R, 'l_key': 'id', 'r_key': 'id',
            'l_attr': 's', 'r_attr': 's', 'tok': tok, 'threshold': k,
            'comp_op': rng.choice(['<=', '<', '=']), 'n_jobs': 1}


def universe_call(cfg, k, op):
    strs = universe(cfg['alpha'], cfg['maxlen'])
    L = T.table_spec(['id', 's'], [[i, s] for i, s in enumerate(strs)], dtypes={'s': 'object'})
    R = T.table_spec(['id', 's'], [[i, s] for i, s in enumerate(strs)], dtypes={'s': 'object'})
    tok = {'kind': 'qgram', 'q': cfg['q'], 'padding': cfg['padding'], 'return_set': cfg['return_set']}
    return {'api': 'edit_distance_join', 'ltable': L, 'rtable': R, 'l_key': 'id', 'r_key': 'id',
            'l_attr': 's', 'r_attr': 's', 'tok': tok, 'threshold': k, 'comp_op': op, 'n_jobs': 1}


def materialise(case):
    g = case['gen']
    if g == 'u':
        return universe_call(case['cfg'], case['k'], case['op'])
    if g == 'nb':
        return nb_call(random.Random(case['seed']))
    if g == 'one':
        return one_call(random.Random(case['seed']))
    if g == 'explicit':
        return case['call']
    raise ValueError(g)


def run_case(case, rec, ssj=None, ev=None):
    ssj = ssj or env.load()
    if case['gen'] == 'seq':
        from rv.checks import seq

        def judge(df, call, rec_, step):
            st = oracle.check_edit_join(df, call, rec_, DECIDE, oracle.EditView(call),
                                        case=dict(case, step=step), tag='[sequence step %d] ' % step)
            for k, v in st.items():
                rec_.count(k, v)
        seq.run_sequence(ssj, random.Random(case['seed']), rec, judge, edit=True)
        return {'required': 1}
    call = materialise(case)
    try:
        df = T.exec_call(ssj, call)
    except Exception as e:
        rec.count('calls_raised')
        rec.add('raised', '%s: %s' % (type(e).__name__, str(e)[:80]))
        return None
    if ev is None:
        ev = oracle.EditView(call)
    stats = oracle.check_edit_join(df, call, rec, DECIDE, ev, case=case)
    oracle.check_ids(df, rec, case=case)
    for k, v in stats.items():
        rec.count(k, v)
    return stats


def large_case(case, rec, ssj):
    """Tables beyond the sizes where an implementation might switch strategy.  Every output row is
    judged exactly (sound / once / score / keys); completeness is decided on the planted pairs."""
    rng = random.Random(case['seed'])
    L, R, planted = gen.large_planted_tables(rng, case['n'], 'ed')
    tok = {'kind': 'qgram', 'q': case['q'], 'padding': case['padding'], 'return_set': False}
    call = {'api': 'edit_distance_join', 'ltable': L, 'rtable': R, 'l_key': 'id', 'r_key': 'id',
            'l_attr': 's', 'r_attr': 's', 'tok': tok, 'threshold': case['k'], 'comp_op': case['op'],
            'n_jobs': case['n_jobs'], 'out_sim_score': True}
    try:
        df = T.exec_call(ssj, call)
    except Exception as e:
        rec.count('calls_raised')
        rec.add('raised', '%s: %s' % (type(e).__name__, str(e)[:80]))
        return 0
    ev = oracle.EditView(call)
    stats = oracle.check_edit_join(df, call, rec, DECIDE - {'complete'}, ev, case=case, tag='[large] ')
    oracle.check_ids(df, rec, case=case)
    got = set(zip(df['l_id'].tolist(), df['r_id'].tolist()))
    fn = model.OPS[case['op']]
    req = 0
    for (i, j, info) in planted:
        d = model.levenshtein(info['l'], info['r'])
        lt, rt = T.model_tokens(tok, info['l'], as_set=True), T.model_tokens(tok, info['r'], as_set=True)
        if fn(d, case['k']) and set(lt) & set(rt):
            req += 1
            if (i, j) not in got:
                rec.violation('complete', '[large, %d rows] qualifying planted pair (%r, %r) missing: '
                              'levenshtein(%r, %r)=%d satisfies %s %r' % (case['n'], i, j, info['l'], info['r'],
                                                                         d, case['op'], case['k']), case=case)
    rec.count('required', req)
    rec.count('large_planted_required', req)
    for k, v in stats.items():
        rec.count(k, v)
    return req


def run_shard(shard, rec):
    ssj = env.load()
    monitors.import_repo_modules()
    reach = monitors.Reach()
    reach.start()
    contracts = monitors.Contracts()
    contracts.attach_filter_utils(overlap=False)
    kind = shard['kind']
    if kind == 'u':
        dist_by_uni = {}
        for cfg in shard['configs']:
            ukey = (cfg['alpha'], cfg['maxlen'])
            ev = None
            for k in cfg['ks']:
                for op in ('<=', '<', '='):
                    if op != '<=' and rec.tier == 'quick' and k not in (1, 2):
                        continue
                    case = {'gen': 'u', 'cfg': cfg, 'k': k, 'op': op}
                    if ev is None:
                        ev = oracle.EditView(materialise(case))
                        ev.dist = dist_by_uni.setdefault(ukey, {})
                    st = run_case(case, rec, ssj, ev)
                    rec.case(sig=('u', ukey, cfg['q'], cfg['padding'], cfg['return_set'], k, op),
                             nontrivial=bool(st and st.get('required')))
                    rec.add('q_pad_k', (cfg['q'], cfg['padding'], k))
            rec.sample({'workload': 'U', 'alphabet': cfg['alpha'], 'max_len': cfg['maxlen'],
                        'strings_per_side': len(universe(cfg['alpha'], cfg['maxlen'])),
                        'q': cfg['q'], 'padding': cfg['padding'], 'return_set': cfg['return_set'],
                        'thresholds': cfg['ks']}, limit=1)
    elif kind == 'large':
        for x, n in enumerate(shard['sizes']):
            for y, (q, k, pad) in enumerate([(2, 2, True), (3, 1, True), (2, 1, False)]):
                if rec.tier == 'quick' and (x + y) % 2 == 0 and y:
                    continue
                case = {'gen': 'large', 'n': n, 'q': q, 'k': k, 'padding': pad, 'seed': shard['seed'] * 100 + 7 * x + y,
                        'op': ('<=', '<=', '=')[(x + y) % 3], 'n_jobs': 1 if (x + y) % 3 else 2}
                st = large_case(case, rec, ssj)
                rec.case(sig=('large', n, q, k, pad), nontrivial=st > 0)
                rec.count('large_table_cases')
        rec.sample({'workload': 'LARGE', 'sizes': shard['sizes'], 'note': 'n-row tables of random filler '
                    'strings with 14 planted pairs at distance 0/1/2 (also edits inside runs of long '
                    'periodic strings); output rows judged exactly, completeness on the planted pairs'},
                   limit=1)
    elif kind == 'seq':
        for i in range(shard['n']):
            sd = shard['seed'] * 100000 + i
            run_case({'gen': 'seq', 'seed': sd}, rec, ssj)
            rec.case(sig=('seq', sd), nontrivial=True)
        rec.sample({'workload': 'SEQ', 'note': 'edit-distance joins in one process with q and padding '
                    'changed through the setters of one shared tokenizer object'}, limit=1)
    elif kind in ('nb', 'one'):
        for i in range(shard['n']):
            case = {'gen': kind, 'seed': shard['seed'] * 100000 + i}
            st = run_case(case, rec, ssj)
            rec.case(sig=(kind, case['seed']), nontrivial=bool(st and st.get('required')))
            if i == 0:
                call = materialise(case)
                rec.sample({'workload': kind.upper(), 'tok': call['tok'], 'threshold': call['threshold'],
                            'comp_op': call['comp_op'],
                            'left': T.column(call['ltable'], call['l_attr'])[:4],
                            'right': T.column(call['rtable'], call['r_attr'])[:4]}, limit=1)
            if i % 50 == 0:
                call = materialise(case)
                rec.add('q_pad_k', (call['tok']['q'], call['tok']['padding'], call['threshold']))
    reach.stop()
    for k, v in reach.anchors(ANCHORS).items():
        rec.reach[k] = v
    cs = contracts.summary()
    for k, v in cs['evaluations'].items():
        rec.count('contract_evals.' + k, v)
    for k, v in cs['anomalies'].items():
        rec.count('contract_anomalies.' + k, v)
    contracts.detach()


def finalize(agg, tier):
    c = agg['counters']
    if c.get('required', 0) == 0:
        agg['inconclusive'].append('no pair within the threshold that shares a q-gram was observed')
    if c.get('rows_checked', 0) == 0:
        agg['inconclusive'].append('no output row was checked')


def coverage_extra(agg, tier):
    c = agg['counters']
    return {'pairs_within_threshold': c.get('within', 0),
            'of_which_sharing_a_qgram(required)': c.get('required', 0),
            'of_which_in_documented_gap': c.get('within_no_common_qgram', 0),
            'output_rows_checked': c.get('rows_checked', 0),
            'exhaustive_subspaces': ['U: all strings over the alphabet up to the length bound, '
                                     'both sides, per (q, padding, mode, k, op)']}
