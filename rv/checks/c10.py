"""C10 -- results depend only on the rows and parameters, not on schedule or presentation.

Deciding oracles (boundary, metamorphic): (a) for every n_jobs in 1..R+3 and {-1,-2,-100,64} the
multiset of result rows equals the n_jobs=1 result (joins, apply_matcher, filter_candset,
Size/OverlapFilter.filter_tables; for Prefix/Position filter_tables the model-required pairs are
present under every chunking), under the threading backend with random per-job delays and under loky;
(c) permuting rows, relabelling the index, adding columns, repeating the call leave the multiset
unchanged for every entry point; (d) the same fixed cases give the same digest in processes started
with different PYTHONHASHSEEDs; (e) _id is 0..n-1.  The dispatch trace (chunks handed to jobs) and the
split_table contract (exhaustive for len<=200, k<=64) are evidence / anomaly sources."""
import hashlib
import random

from rv import env, gen, model, monitors, oracle
from rv import tables as T
from rv.checks import c04, c08

PROPERTY = 'C10'
LEVEL = 'exploration'
RULE = ('cases = (entry point, seeded tables with <=12 right rows / candidate rows) x every n_jobs in '
        '1..R+3 and {-1,-2,-100,64} (threading backend with injected per-job delays; loky sample) '
        'compared with n_jobs=1; presentation variants (row permutation of either table, index '
        'relabelling, added columns, repeated call); fixed case list digested in processes with '
        'PYTHONHASHSEED in {0,1,4242,31337}; split_table driven under its contract for all len<=200 '
        'x k<=64; LARGE planted tables (1100 to 4100 rows) under n_jobs 1/3/8 and permutations. Non-trivial = the baseline result has at least one row; distinct = (entry, seed, '
        'variant).')
ASSUMPTIONS = ['joblib threading backend executes the same job functions on the same chunks as loky '
               '(loky is sampled separately)', 'py_stringmatching tokenizers are trusted']
SHARD_TIMEOUT = {'quick': 600, 'thorough': 3600}

ENTRY = [e for e in c08.ENTRY if e != 'filter_pair']
SUPERFLUOUS_MAY_VARY = ('ft:PrefixFilter', 'ft:PositionFilter', 'ft:SuffixFilter')
HASHSEEDS = [0, 1, 4242, 31337]

ANCHORS = {
    'split_table': ('py_stringsimjoin/utils/generic_helper.py', r'splits.append\(table\[int\(round'),
    'jaccard.parallel': ('py_stringsimjoin/join/jaccard_join_py.py', r'r_splits = split_table\(rtable_array, n_jobs\)'),
    'edit.parallel': ('py_stringsimjoin/join/edit_distance_join_py.py', r'r_splits = split_table\(rtable_array, n_jobs\)'),
    'candset.parallel': ('py_stringsimjoin/filter/filter.py', r'candset_splits = split_table\(candset, n_jobs\)'),
    'matcher.parallel': ('py_stringsimjoin/matcher/apply_matcher.py', r'candset_splits = split_table\(candset, n_jobs\)'),
    'num_procs.negative': ('py_stringsimjoin/utils/generic_helper.py', r'num_procs = num_cpus \+ 1 \+ n_jobs'),
}


def plan(tier, seed):
    shards = []
    n = 16 if tier == 'quick' else 160
    for i in range(7):
        shards.append({'name': 'chunk_%d' % i, 'kind': 'chunk', 'entries': ENTRY[i::7] * 1, 'n': n,
                       'seed': seed * 1000 + 160 + i})
    n = 60 if tier == 'quick' else 600
    for i in range(4):
        shards.append({'name': 'pres_%d' % i, 'kind': 'pres', 'n': n, 'seed': seed * 1000 + 170 + i})
    for hs in HASHSEEDS:
        shards.append({'name': 'hash_%d' % hs, 'kind': 'hash', 'hashseed': hs,
                       'n': 120 if tier == 'quick' else 600})
    shards.append({'name': 'split', 'kind': 'split'})
    shards.append({'name': 'tie', 'kind': 'tie', 'n': 200 if tier == 'quick' else 3000, 'seed': seed * 1000 + 183})
    shards.append({'name': 'sizegrid', 'kind': 'sizegrid', 'n': 150 if tier == 'quick' else 2500, 'N': 12,
                   'seed': seed * 1000 + 181})
    shards.append({'name': 'large', 'kind': 'large', 'sizes': [1100, 2300] if tier == 'quick' else
                   [600, 1100, 2300, 4100]})
    shards.append({'name': 'loky', 'kind': 'loky', 'n': 20 if tier == 'quick' else 150,
                   'seed': seed * 1000 + 179})
    return shards


def digest(df):
    rows = sorted(repr(r) for r in model.canon_rows(df))
    return hashlib.sha1('\n'.join(rows).encode()).hexdigest()[:16]


def rows_of(df, with_id=False):
    # (the _id of a join / filter_tables result is a running number, checked separately; the id a
    #  candidate row carries through filter_candset / apply_matcher belongs to the row)
    return model.multiset(model.canon_rows(df, drop=() if with_id else ('_id',)))


def required_keys(call):
    """Model-required key pairs for Prefix/Position filter_tables (ratio / overlap measures)."""
    f = call['filter']
    view = oracle.TableView(call)
    req = c04.required_pairs(view, f['measure'], f['threshold'])
    return set((view.lkeys[i], view.rkeys[j]) for (i, j) in req)


def key_pairs(df, call):
    lp = call.get('l_out_prefix', 'l_') + call['l_key']
    rp = call.get('r_out_prefix', 'r_') + call['r_key']
    return set(zip([model.canon_cell(v) for v in df[lp].tolist()],
                   [model.canon_cell(v) for v in df[rp].tolist()]))


def n_units(call):
    """Rows that are split across jobs: present right rows, or candidate rows."""
    if call['api'] in ('filter_candset', 'apply_matcher'):
        return T.spec_len(call['candset'])
    return sum(1 for v in call['rtable']['data'][call['r_attr']] if not model.is_missing(v))


def make_entry_call(rng, entry):
    call = c08.make_call(rng, entry, rng.choice(c08.PATTERNS[:4] + ['both']))
    call = c08.with_missing(call, rng.random() < 0.45)
    if 'filter' in call:
        # filters assume set-returning tokenizers for the set measures (they do not coerce)
        call['tok'] = dict(call['tok'], return_set=True)
    call['n_jobs'] = 1
    return call


def check_dispatch(ev, call, rec):
    """Trace specification (anomaly source, not a verdict): chunks contiguous, in order, covering."""
    rec.count('dispatch_events')
    rec.add('chunk_lengths', tuple(len(c) if c is not None else -1 for c in ev['chunks']))
    rec.count('jobs_with_zero_rows', sum(1 for n in ev['result_lens'] if n == 0))
    if call['api'] in ('filter_candset', 'apply_matcher'):
        expected = [model.canon_cell(v) for v in call['candset']['data'][call['candset']['cols'][0]]]
    else:
        expected = [model.canon_cell(k) for k, v in zip(call['rtable']['data'][call['r_key']],
                                                       call['rtable']['data'][call['r_attr']])
                    if not model.is_missing(v)]
    cat = [x for c in ev['chunks'] if c is not None for x in c]
    if any(c is None for c in ev['chunks']) or cat != expected:
        rec.count('dispatch_anomalies')
    if ev['tasks'] != ev['n_jobs']:
        rec.count('dispatch_tasks_ne_jobs')


def sweep_case(case, rec, ssj, trace=None):
    rng = random.Random(case['seed'])
    entry = case['entry']
    call = make_entry_call(rng, entry)
    tag = '%s ' % entry
    if call['api'] == 'apply_matcher' and rng.random() < 0.3:
        # a hand-made candidate set: the pair-id column is not called _id
        cs = dict(call['candset'])
        cs['cols'] = ['pair_id' if c == '_id' else c for c in cs['cols']]
        cs['data'] = dict(cs['data'])
        cs['data']['pair_id'] = cs['data'].pop('_id')
        cs['dtypes'] = dict(cs.get('dtypes', {}))
        if '_id' in cs['dtypes']:
            cs['dtypes']['pair_id'] = cs['dtypes'].pop('_id')
        call['candset'] = cs
    if case.get('sim') and call['api'] == 'apply_matcher' and call.get('tok') is not None:
        call['sim'] = case['sim']
        call['comp_op'], call['threshold'], call['out_sim_score'] = '>=', 0.3, True
    try:
        base = T.exec_call(ssj, call)
    except Exception as e:
        rec.count('calls_raised')
        rec.add('raised', '%s %s: %s' % (entry, type(e).__name__, str(e)[:80]))
        return {'rows': 0}
    oracle.check_ids(base, rec, case=case, tag=tag) if call['api'] not in ('filter_candset', 'apply_matcher') else None
    carries_id = call['api'] in ('filter_candset', 'apply_matcher')
    base_rows = rows_of(base, carries_id)
    R = n_units(call)
    sweep = case.get('n_jobs_list') or (list(range(2, R + 4)) + [-1, -2, -100, 64])
    req = None
    if entry in ('ft:PrefixFilter', 'ft:PositionFilter'):
        if call['filter']['measure'] in ('JACCARD', 'COSINE', 'DICE', 'OVERLAP'):
            req = required_keys(call)
    for nj in sweep:
        c = dict(call, n_jobs=nj)
        if case.get('backend'):
            c['backend'] = case['backend']
        if trace is not None:
            trace.events = []
        try:
            df = T.exec_call(ssj, c)
        except Exception as e:
            rec.violation('raises', tag + 'n_jobs=%r raised %s: %s (n_jobs=1 returned %d rows)'
                          % (nj, type(e).__name__, str(e)[:200], len(base)), case=dict(case, n_jobs=nj))
            continue
        rec.count('sweep_calls')
        rec.add('rows_njobs_backend', (R, nj, case.get('backend', 'threading')))
        if trace is not None:
            for ev in trace.events:
                check_dispatch(ev, c, rec)
                rec.count('delays_injected', len(ev['delays']))
        if call['api'] not in ('filter_candset', 'apply_matcher'):
            oracle.check_ids(df, rec, case=dict(case, n_jobs=nj), tag=tag + 'n_jobs=%r ' % nj)
        if entry in SUPERFLUOUS_MAY_VARY:
            if req is not None:
                got = key_pairs(df, c)
                lost = req - got
                if lost:
                    rec.violation('chunking', tag + 'n_jobs=%r loses qualifying pair(s) %r that the '
                                  'model requires' % (nj, sorted(lost, key=repr)[:3]), case=dict(case, n_jobs=nj))
                rec.count('required_pairs_checked', len(req))
            continue
        got = rows_of(df, carries_id)
        if got != base_rows:
            extra = list((got - base_rows).elements())[:2]
            lost = list((base_rows - got).elements())[:2]
            rec.violation('chunking', tag + 'n_jobs=%r: %d rows vs %d rows for n_jobs=1 (%d split units); '
                          'only with n_jobs=%r: %r; only with n_jobs=1: %r'
                          % (nj, len(df), len(base), R, nj, extra, lost), case=dict(case, n_jobs=nj))
        if call['api'] in ('filter_candset', 'apply_matcher'):
            # these keep candidate-set order: compare the sequence too
            if model.canon_rows(df, drop=()) != model.canon_rows(base, drop=()):
                rec.violation('chunking_order', tag + 'n_jobs=%r: row sequence differs from n_jobs=1'
                              % (nj,), case=dict(case, n_jobs=nj))
    return {'rows': len(base), 'call': call}


def permute_table(rng, spec, how):
    n = T.spec_len(spec)
    s = {'cols': list(spec['cols']), 'data': dict((c, list(v)) for c, v in spec['data'].items()),
         'index': list(spec['index']) if spec.get('index') is not None else None,
         'dtypes': dict(spec['dtypes'])}
    if how == 'perm' and n:
        p = list(range(n))
        rng.shuffle(p)
        for c in s['cols']:
            s['data'][c] = [s['data'][c][i] for i in p]
        if s['index'] is not None:
            s['index'] = [s['index'][i] for i in p]
    elif how == 'reverse' and n:
        for c in s['cols']:
            s['data'][c] = s['data'][c][::-1]
        if s['index'] is not None:
            s['index'] = s['index'][::-1]
    elif how == 'index_int':
        s['index'] = rng.sample(range(1000, 1000 + 10 * n + 1), n)
    elif how == 'index_str':
        s['index'] = ['k%d' % i for i in rng.sample(range(10 * n + 1), n)]
    elif how == 'index_range':
        s['index'] = None
    elif how == 'index_dup':        # labels restart, as after pd.concat without ignore_index
        k = max(1, n // 2)
        s['index'] = [i % k for i in range(n)]
    elif how == 'index_const':
        s['index'] = [3] * n
    elif how == 'add_cols':
        s['cols'] = ['zz_extra1'] + s['cols'] + ['zz_extra2']
        s['data']['zz_extra1'] = [rng.random() for _ in range(n)]
        s['data']['zz_extra2'] = ['e%d' % i for i in range(n)]
        s['dtypes']['zz_extra1'] = 'float64'
        s['dtypes']['zz_extra2'] = 'object'
    return s


def pres_case(case, rec, ssj):
    rng = random.Random(case['seed'])
    entry = rng.choice(ENTRY)
    call = make_entry_call(rng, entry)
    if entry not in SUPERFLUOUS_MAY_VARY:
        call['n_jobs'] = rng.choice([1, 1, 2, 3])
    tag = '%s ' % entry
    try:
        base = T.exec_call(ssj, call)
    except Exception as e:
        rec.count('calls_raised')
        rec.add('raised', '%s %s: %s' % (entry, type(e).__name__, str(e)[:80]))
        return {'rows': 0}
    base_rows = rows_of(base)
    variants = []
    for side in ('ltable', 'rtable'):
        for how in ('perm', 'reverse', 'index_int', 'index_str', 'index_range', 'add_cols', 'index_dup',
                    'index_const'):
            variants.append((side, how))
    rng.shuffle(variants)
    variants = variants[:7] + [('repeat', 'repeat')]
    if not any(h == 'index_dup' for _, h in variants):
        variants.append((rng.choice(['ltable', 'rtable']), 'index_dup'))
    if call['api'] in ('filter_candset', 'apply_matcher'):
        variants.append(('candset', 'index_str'))
        variants.append(('candset', 'index_int'))
    for side, how in variants:
        c = dict(call)
        if side != 'repeat':
            c[side] = permute_table(rng, call[side], how)
        try:
            df = T.exec_call(ssj, c)
        except Exception as e:
            rec.violation('raises', tag + 'variant %s/%s raised %s: %s' % (side, how, type(e).__name__,
                                                                            str(e)[:200]),
                          case=dict(case, variant=[side, how]))
            continue
        rec.count('presentation_calls')
        rec.add('variant', (side, how))
        if rows_of(df) != base_rows:
            got = rows_of(df)
            rec.violation('presentation', tag + 'variant %s/%s changes the result: %d rows vs %d; only '
                          'in variant: %r; only in original: %r' % (
                              side, how, len(df), len(base), list((got - base_rows).elements())[:2],
                              list((base_rows - got).elements())[:2]),
                          case=dict(case, variant=[side, how]))
    return {'rows': len(base), 'call': call}


def large_case(case, rec, ssj):
    """Schedule / presentation independence on tables beyond 1000 / 2048 rows: the n_jobs=1 result
    against n_jobs 3 and 8 (right-table chunks below and above 1000 rows) and against permuted tables."""
    rng = random.Random(case['seed'])
    kind = case['kind']
    L, R, planted = gen.large_planted_tables(rng, case['n'], kind)
    if kind == 'ws':
        call = {'api': case['api'], 'ltable': L, 'rtable': R, 'l_key': 'id', 'r_key': 'id', 'l_attr': 's',
                'r_attr': 's', 'tok': {'kind': 'ws', 'return_set': True}, 'threshold': case['threshold'],
                'n_jobs': 1}
    else:
        call = {'api': 'edit_distance_join', 'ltable': L, 'rtable': R, 'l_key': 'id', 'r_key': 'id',
                'l_attr': 's', 'r_attr': 's', 'tok': {'kind': 'qgram', 'q': 2, 'padding': True, 'return_set': False},
                'threshold': case['threshold'], 'n_jobs': 1}
    tag = '[large, %d rows] %s ' % (case['n'], call['api'])
    try:
        base = T.exec_call(ssj, call)
    except Exception as e:
        rec.count('calls_raised')
        rec.add('raised', '%s %s: %s' % (call['api'], type(e).__name__, str(e)[:80]))
        return {'rows': 0}
    base_rows = rows_of(base)
    variants = [('n_jobs', 3), ('n_jobs', 8), ('ltable', 'reverse'), ('rtable', 'perm'), ('ltable', 'perm')]
    for side, how in variants:
        c = dict(call)
        if side == 'n_jobs':
            c['n_jobs'] = how
        else:
            c[side] = permute_table(rng, call[side], how)
        try:
            df = T.exec_call(ssj, c)
        except Exception as e:
            rec.violation('raises', tag + 'variant %s/%s raised %s: %s' % (side, how, type(e).__name__,
                                                                            str(e)[:200]), case=case)
            continue
        rec.count('presentation_calls')
        rec.count('large_table_variants')
        if rows_of(df) != base_rows:
            got = rows_of(df)
            rec.violation('presentation' if side != 'n_jobs' else 'n_jobs', tag + 'variant %s=%s changes the '
                          'result: %d rows vs %d; only in variant: %r; only in original: %r' % (
                              side, how, len(df), len(base), list((got - base_rows).elements())[:2],
                              list((base_rows - got).elements())[:2]), case=case)
    return {'rows': len(base), 'call': call}


def tie_case(case, rec, ssj):
    """Row permutations on tables FULL of frequency ties: every token occurs exactly twice in each
    table, pairs of tokens occur together in several rows and are first met in different rows.  The
    rank of a token must not depend on where in the table it is first seen, so Prefix / Position /
    Suffix filter_tables (whose superfluous candidates follow the token order) and the joins must
    return the same rows for every row order (same chunking: n_jobs=1)."""
    rng = random.Random(case['seed'])
    V = case.get('V', 8)
    toks = ['t%d' % i for i in range(V)]

    def table(side):
        # each token twice: rows are pairs / triples drawn from two shuffled copies of the vocabulary
        bag = toks + toks
        rng.shuffle(bag)
        rows, i = [], 0
        while i < len(bag):
            k = rng.choice([2, 3, 3, 4])
            r = []
            for t in bag[i:i + k]:
                if t not in r:
                    r.append(t)
            rows.append(r)
            i += k
        return T.table_spec([side + 'id', side + 'attr'], [[x, ' '.join(r)] for x, r in enumerate(rows)],
                            dtypes={side + 'attr': 'object'})
    L, R = table('l'), table('r')
    kind = case['kind']
    m = rng.choice(['JACCARD', 'COSINE', 'DICE'])
    t = rng.choice([0.3, 0.4, 0.5, 0.6])
    if kind == 'join':
        call = {'api': T.MEASURE_JOIN[m], 'threshold': t}
    else:
        call = {'api': 'filter_tables', 'filter': {'kind': kind, 'measure': m, 'threshold': t}}
    call.update({'ltable': L, 'rtable': R, 'l_key': 'lid', 'r_key': 'rid', 'l_attr': 'lattr', 'r_attr': 'rattr',
                 'tok': {'kind': 'ws', 'return_set': True}, 'n_jobs': 1, 'warm': None, 'positional': False})
    tag = '%s(%s, %r) on tables of frequency ties: ' % (kind, m, t)
    try:
        base = rows_of(T.exec_call(ssj, call))
    except Exception as e:
        rec.add('raised', 'tie %s: %s' % (type(e).__name__, str(e)[:80]))
        return {'rows': 0}
    for side, how in (('ltable', 'reverse'), ('rtable', 'reverse'), ('ltable', 'perm'), ('rtable', 'perm'),
                      ('ltable', 'perm')):
        c = dict(call)
        c[side] = permute_table(rng, call[side], how)
        try:
            got = rows_of(T.exec_call(ssj, c))
        except Exception as e:
            rec.violation('raises', tag + 'variant %s/%s raised %s' % (side, how, type(e).__name__), case=case)
            continue
        rec.count('presentation_calls')
        rec.count('tie_table_variants')
        if got != base:
            rec.violation('presentation', tag + 'permuting the rows of the %s (%s) changes the result: only in '
                          'the variant %r; only in the original %r' % (side, how, list((got - base).elements())[:2],
                                                                       list((base - got).elements())[:2]), case=case)
            break
    return {'rows': sum(base.values())}


def allperm_case(case, rec, ssj):
    """EVERY row order of a small left table whose rows have very different token counts (including
    a value without tokens and a missing one): running minima / maxima, 'first row seen' state and
    sentinels in the indexes must not depend on the order in which the rows arrive."""
    import itertools
    rng = random.Random(case['seed'])
    sizes = rng.choice([[3, 0, 5, 1], [2, 0, 4, 7, 1], [0, 3, 6, 2], [5, 0, 0, 2, 9], [1, 4, 0, 8, 3]])
    toks = ['w%d' % i for i in range(10)]
    lvals = [' '.join(toks[:k]) if k else rng.choice(['', '  ']) for k in sizes]
    if rng.random() < 0.4:
        lvals.append(None)
    rvals = [' '.join(toks[:k]) for k in range(1, 9)] + ['', 'zz']
    R = T.table_spec(['rid', 'rattr'], [[100 + j, v] for j, v in enumerate(rvals)], dtypes={'rattr': 'object'})
    kind = case['kind']
    m = rng.choice(['JACCARD', 'COSINE', 'DICE'])
    t = rng.choice([0.3, 0.5, 0.6, 0.8])
    base_rows = None
    n_orders = 0
    for order in itertools.permutations(range(len(lvals))):
        L = T.table_spec(['lid', 'lattr'], [[i, lvals[i]] for i in order], dtypes={'lattr': 'object'})
        if kind == 'join':
            call = {'api': T.MEASURE_JOIN[m], 'threshold': t, 'allow_empty': case.get('allow_empty', True)}
        else:
            call = {'api': 'filter_tables', 'filter': {'kind': kind, 'measure': m, 'threshold': t,
                                                       'allow_empty': case.get('allow_empty', True)}}
        call.update({'ltable': L, 'rtable': R, 'l_key': 'lid', 'r_key': 'rid', 'l_attr': 'lattr', 'r_attr': 'rattr',
                     'tok': {'kind': 'ws', 'return_set': True}, 'n_jobs': 1, 'warm': None, 'positional': False})
        try:
            rows = rows_of(T.exec_call(ssj, call))
        except Exception as e:
            rec.violation('raises', '%s on left row order %r raised %s: %s' % (kind, order, type(e).__name__,
                                                                              str(e)[:120]), case=case)
            return {'rows': 0}
        n_orders += 1
        if base_rows is None:
            base_rows = rows
        elif rows != base_rows:
            rec.violation('presentation', '%s(%s, %r): left rows with token counts %r in the order %r give another '
                          'result than in the order given first: only now %r; only before %r'
                          % (kind, m, t, sizes, order, list((rows - base_rows).elements())[:2],
                             list((base_rows - rows).elements())[:2]), case=case)
            break
    rec.count('presentation_calls', n_orders)
    rec.count('row_orders_enumerated', n_orders)
    return {'rows': sum(base_rows.values()) if base_rows else 0}


def mp_case(case, rec, ssj):
    """apply_matcher under joblib's 'multiprocessing' backend (bound methods travel through the
    library's own copyreg hook there) with the bound method of a CONFIGURED measure object: the
    workers must compute what the n_jobs=1 run computes."""
    rng = random.Random(case['seed'])
    L, R, tok = gen.random_table_pair(rng, tok={'kind': 'ws', 'return_set': True}, max_rows=8, missing=0.0,
                                      key_kind='int', index_kind='range')
    for spec, side in ((L, 'l'), (R, 'r')):
        spec.pop('dup_label', None)
        while T.spec_len(spec) < 3:
            for c in spec['cols']:
                dt = str(spec['dtypes'].get(c))
                spec['data'][c].append(len(spec['data'][c]) + 50 if c == side + 'id' else
                                       ('a b c' if c == side + 'attr' else
                                        (1 if dt.startswith('int') else (0.5 if dt.startswith('float') else
                                                                         (True if dt == 'bool' else 'v')))))
    C = gen.random_candset(rng, L, R, 'lid', 'rid', size=T.spec_len(L) * T.spec_len(R), extra_cols=False,
                           index_kind='range')
    call = {'api': 'apply_matcher', 'ltable': L, 'rtable': R, 'candset': C, 'c_l_key': 'l_lid', 'c_r_key': 'r_rid',
            'l_key': 'lid', 'r_key': 'rid', 'l_attr': 'lattr', 'r_attr': 'rattr', 'tok': tok, 'sim': case['sim'],
            'threshold': 0.0, 'comp_op': '>=', 'allow_missing': False, 'out_sim_score': True, 'n_jobs': 1,
            'warm': None, 'positional': False}
    try:
        base = rows_of(T.exec_call(ssj, call))
    except Exception as e:
        rec.add('raised', 'mp %s: %s' % (type(e).__name__, str(e)[:80]))
        return {'rows': 0}
    for nj in (2, 3):
        try:
            got = rows_of(T.exec_call(ssj, dict(call, n_jobs=nj, backend='multiprocessing')))
        except Exception as e:
            rec.violation('raises', "apply_matcher(sim=%s) under the 'multiprocessing' backend, n_jobs=%d raised "
                          '%s: %s' % (case['sim'], nj, type(e).__name__, str(e)[:160]), case=case)
            continue
        rec.count('sweep_calls')
        if got != base:
            rec.violation('n_jobs', "apply_matcher(sim=%s) under the 'multiprocessing' backend, n_jobs=%d: only in "
                          'the parallel result %r; only with n_jobs=1 %r' % (
                              case['sim'], nj, list((got - base).elements())[:2], list((base - got).elements())[:2]),
                          case=case)
            break
    return {'rows': sum(base.values())}


def sizegrid_case(case, rec, ssj):
    """SizeFilter / OverlapFilter.filter_tables (whose rows must not depend on n_jobs) on a grid of
    token counts: left rows with 1..N tokens, right rows with 1..N tokens twice (the right table is
    longer than the left one, its chunks are shorter), thresholds a few 1e-6 next to ratios of counts
    -- where a bound evaluated from the other side's count falls on the other side of the slack."""
    rng = random.Random(case['seed'])
    N = case['N']
    a, b = rng.randint(1, N), rng.randint(1, N)
    m = case['measure']
    base = {'JACCARD': min(a, b) / float(max(a, b)), 'COSINE': (min(a, b) / float(max(a, b))) ** 0.5,
            'DICE': 2.0 * min(a, b) / (a + b)}[m]
    t = min(1.0, max(1e-6, base + rng.choice([4e-6, 3e-6, 1e-5, -4e-6, 0, 2e-5, 4.9e-5, 5.1e-5])))
    L = T.table_spec(['id', 's'], [[i, ' '.join('l%d_%d' % (i, k) for k in range(i))] for i in range(1, N + 1)],
                     dtypes={'s': 'object'})
    R = T.table_spec(['id', 's'], [[j, ' '.join('r%d_%d' % (j, k) for k in range((j - 1) % N + 1))]
                                   for j in range(1, 2 * N + 1)], dtypes={'s': 'object'})
    call = {'api': 'filter_tables', 'filter': {'kind': 'SizeFilter', 'measure': m, 'threshold': t},
            'ltable': L, 'rtable': R, 'l_key': 'id', 'r_key': 'id', 'l_attr': 's', 'r_attr': 's',
            'tok': {'kind': 'ws', 'return_set': True}, 'n_jobs': 1}
    tag = 'SizeFilter(%s, %r).filter_tables on the count grid 1..%d: ' % (m, t, N)
    try:
        base_rows = rows_of(T.exec_call(ssj, call))
    except Exception as e:
        rec.add('raised', 'sizegrid %s: %s' % (type(e).__name__, str(e)[:80]))
        return {'rows': 0}
    for nj in (2, 3, 4, 5, 7):
        try:
            got = rows_of(T.exec_call(ssj, dict(call, n_jobs=nj)))
        except Exception as e:
            rec.violation('raises', tag + 'n_jobs=%d raised %s: %s' % (nj, type(e).__name__, str(e)[:160]), case=case)
            continue
        rec.count('sizegrid_comparisons')
        if got != base_rows:
            rec.violation('n_jobs', tag + 'n_jobs=%d changes the result: only with n_jobs=%d %r; only with '
                          'n_jobs=1 %r' % (nj, nj, list((got - base_rows).elements())[:3],
                                           list((base_rows - got).elements())[:3]), case=case)
            break
    return {'rows': sum(base_rows.values())}


def run_case(case, rec, ssj=None):
    ssj = ssj or env.load()
    if case['gen'] == 'sizegrid':
        return sizegrid_case(case, rec, ssj)
    if case['gen'] == 'mp':
        return mp_case(case, rec, ssj)
    if case['gen'] == 'tie':
        return tie_case(case, rec, ssj)
    if case['gen'] == 'allperm':
        return allperm_case(case, rec, ssj)
    if case['gen'] == 'large':
        return large_case(case, rec, ssj)
    if case['gen'] == 'chunk':
        return sweep_case(case, rec, ssj)
    if case['gen'] == 'pres':
        return pres_case(case, rec, ssj)
    if case['gen'] == 'split':
        from py_stringsimjoin.utils import generic_helper as gh
        import numpy as np
        n, k = case['n'], case['k']
        parts = gh.split_table(np.arange(n * 2).reshape(n, 2), k)
        cat = [int(r[0]) for p in parts for r in p]
        if len(parts) != k or cat != [2 * i for i in range(n)]:
            rec.violation('split_table', 'split_table(len=%d, k=%d) does not partition its input in order: '
                          'chunk lengths %r' % (n, k, [len(p) for p in parts]), case=case)
        return {'rows': n}
    if case['gen'] == 'hash':
        print('a cross-process digest disagreement cannot be replayed inside one process; re-run '
              './check C10 --only hash (case index %r)' % case.get('index'))
        return {'rows': 0}
    raise ValueError(case['gen'])


def run_shard(shard, rec):
    ssj = env.load()
    monitors.import_repo_modules()
    kind = shard['kind']
    reach = monitors.Reach()
    reach.start()
    contracts = monitors.Contracts()
    contracts.attach_split_table()
    if kind == 'chunk':
        trace = monitors.DispatchTrace(delay_ms=2, rng=random.Random(shard['seed']))
        rec.count('parallel_bindings_traced', trace.attach())
        for entry in shard['entries']:
            for i in range(shard['n']):
                case = {'gen': 'chunk', 'entry': entry, 'seed': shard['seed'] * 100000 + i}
                st = sweep_case(case, rec, ssj, trace)
                rec.case(sig=('chunk', entry, case['seed']), nontrivial=st['rows'] > 0)
            rec.sample({'workload': 'chunk sweep', 'entry': entry,
                        'n_jobs': 'every value in 1..R+3 and -1,-2,-100,64',
                        'right_values': st.get('call', {}).get('rtable', {}).get('data', {}).get('rattr')},
                       limit=2)
        trace.detach()
    elif kind == 'loky':
        for i, sim in enumerate(['user_tversky', 'user_tversky', 'JACCARD']):
            case = {'gen': 'mp', 'seed': shard['seed'] * 100000 + 900 + i, 'sim': sim}
            st = mp_case(case, rec, ssj)
            rec.case(sig=('mp', sim, case['seed']), nontrivial=st['rows'] > 0)
            rec.count('multiprocessing_backend_cases')
        for i in range(shard['n']):
            entry = ENTRY[i % len(ENTRY)]
            case = {'gen': 'chunk', 'entry': entry, 'seed': shard['seed'] * 100000 + i,
                    'backend': 'loky' if i % 4 else 'multiprocessing', 'n_jobs_list': [2, 3]}
            st = sweep_case(case, rec, ssj)
            rec.case(sig=('loky', entry, case['seed']), nontrivial=st['rows'] > 0)
    elif kind == 'pres':
        for i in range(shard['n']):
            case = {'gen': 'pres', 'seed': shard['seed'] * 100000 + i}
            st = pres_case(case, rec, ssj)
            rec.case(sig=('pres', case['seed']), nontrivial=st['rows'] > 0)
            if i == 0 and st.get('call'):
                rec.sample({'workload': 'presentation', 'api': st['call']['api'],
                            'variants': 'row permutation / reversal, int / str / range index, extra '
                                        'columns, repeated call'}, limit=1)
    elif kind == 'hash':
        import os
        rec.add('hashseed_env', os.environ.get('PYTHONHASHSEED'))
        # the SAME fixed case list in every process, but executed in a different ORDER per process:
        # state leaking from one call into a later one (module-level memo, shared default tokenizer,
        # reused index) then shows as different digests for the same case
        order = list(range(shard['n']))
        if shard['hashseed'] != HASHSEEDS[0]:
            random.Random(shard['hashseed']).shuffle(order)
        from rv.checks import seq
        for i in order:
            entry = ENTRY[i % len(ENTRY)]
            rng = random.Random(990000 + i)
            if i % 6 == 4:
                # pair-level paths (filter_candset -> filter_pair) order tokens per pair: every token
                # of these values occurs once or twice, so frequency ties are everywhere
                words = ['w%02d' % x for x in range(14)]
                L = T.table_spec(['lid', 'lattr'], [[x, ' '.join(rng.sample(words, rng.randint(3, 8)))]
                                                    for x in range(6)], dtypes={'lattr': 'object'})
                R = T.table_spec(['rid', 'rattr'], [[x, ' '.join(rng.sample(words, rng.randint(3, 8)))]
                                                    for x in range(6)], dtypes={'rattr': 'object'})
                kind = ['SuffixFilter', 'PositionFilter', 'PrefixFilter', 'SuffixFilter'][(i // 6) % 4]
                cs = T.table_spec(['_id', 'l_lid', 'r_rid'], [[n_, a_, b_] for n_, (a_, b_) in
                                                              enumerate((a, b) for a in range(6) for b in range(6))])
                call = {'api': 'filter_candset', 'ltable': L, 'rtable': R, 'candset': cs, 'c_l_key': 'l_lid',
                        'c_r_key': 'r_rid', 'l_key': 'lid', 'r_key': 'rid', 'l_attr': 'lattr', 'r_attr': 'rattr',
                        'tok': {'kind': 'ws', 'return_set': True}, 'n_jobs': 1,
                        'filter': {'kind': kind, 'measure': rng.choice(['JACCARD', 'COSINE', 'DICE']),
                                   'threshold': rng.choice([0.3, 0.4, 0.5, 0.6])}}
            elif i % 6 == 5:
                # edit-distance joins over one small string pool with q in {2,3} and few thresholds
                pool = seq.string_pool(random.Random(77), 16)
                q = [2, 3][(i // 6) % 2]
                L = T.table_spec(['lid', 'lattr'], [[x, rng.choice(pool)] for x in range(6)], dtypes={'lattr': 'object'})
                R = T.table_spec(['rid', 'rattr'], [[x, rng.choice(pool)] for x in range(6)], dtypes={'rattr': 'object'})
                call = {'api': 'edit_distance_join', 'ltable': L, 'rtable': R, 'l_key': 'lid', 'r_key': 'rid',
                        'l_attr': 'lattr', 'r_attr': 'rattr', 'threshold': rng.choice([1, 2]),
                        'tok': {'kind': 'qgram', 'q': q, 'padding': True, 'return_set': False}, 'n_jobs': 1}
            else:
                call = make_entry_call(rng, entry)
                call['n_jobs'] = [1, 2, 3][i % 3]
            try:
                df = T.exec_call(ssj, call)
                d = digest(df)
            except Exception as e:
                d = 'raised:' + type(e).__name__
            rec.add('dg_%04d' % i, d)
            rec.case(sig=('hash', shard['hashseed'], i), nontrivial=True)
    elif kind == 'tie':
        for i in range(shard['n']):
            case = {'gen': 'tie', 'kind': ('PrefixFilter', 'PositionFilter', 'SuffixFilter', 'join')[i % 4],
                    'V': (6, 8, 12)[i % 3], 'seed': shard['seed'] * 100000 + i}
            st = tie_case(case, rec, ssj)
            rec.case(sig=('tie', case['kind'], case['seed']), nontrivial=st['rows'] > 0, n=6)
        for i in range(max(8, shard['n'] // 12)):
            case = {'gen': 'allperm', 'kind': ('join', 'PositionFilter', 'SizeFilter', 'PrefixFilter')[i % 4],
                    'allow_empty': i % 3 != 0, 'seed': shard['seed'] * 100000 + 5000 + i}
            st = allperm_case(case, rec, ssj)
            rec.case(sig=('allperm', case['kind'], case['seed']), nontrivial=st['rows'] > 0, n=24)
        rec.sample({'workload': 'row permutations on tables of frequency ties; every row order of small left '
                    'tables with token counts such as [3, 0, 5, 1]'}, limit=1)
    elif kind == 'sizegrid':
        for i in range(shard['n']):
            case = {'gen': 'sizegrid', 'N': shard['N'], 'measure': ('JACCARD', 'COSINE', 'DICE')[i % 3],
                    'seed': shard['seed'] * 100000 + i}
            st = sizegrid_case(case, rec, ssj)
            rec.case(sig=('sizegrid', case['seed']), nontrivial=st['rows'] > 0, n=6)
        rec.sample({'workload': 'SizeFilter count grid under n_jobs 1..7, thresholds next to count ratios'},
                   limit=1)
    elif kind == 'large':
        for x, n in enumerate(shard['sizes']):
            for y, (knd, api, t) in enumerate([('ws', 'jaccard_join', 0.6), ('ed', 'edit_distance_join', 1),
                                               ('ws', 'dice_join', 0.85), ('ws', 'overlap_join', 3)]):
                if rec.tier == 'quick' and (x + y) % 2 and y > 1:
                    continue
                case = {'gen': 'large', 'n': n, 'kind': knd, 'api': api, 'threshold': t, 'seed': 300 + 11 * x + y}
                st = large_case(case, rec, ssj)
                rec.case(sig=('large', n, api, t), nontrivial=st['rows'] > 0, n=6)
                rec.count('large_table_cases')
        rec.sample({'workload': 'large tables', 'sizes': shard['sizes']}, limit=1)
    elif kind == 'split':
        from py_stringsimjoin.utils import generic_helper as gh
        import numpy as np
        import pandas as pd
        n = 0
        for ln in range(0, 201):
            arr = np.arange(ln * 2).reshape(ln, 2) if ln else np.zeros((0, 2))
            for k in range(1, 65):
                gh.split_table(arr, k)
                n += 1
        for ln in range(0, 60):
            dfm = pd.DataFrame({'_id': range(ln), 'x': range(ln)})
            for k in range(1, 65):
                gh.split_table(dfm, k)
                n += 1
        rec.count('split_table_shapes_driven', n)
        rec.case(sig=('split', 'exhaustive'), nontrivial=True, n=n)
        rec.case(sig=('split', 'exhaustive2'), nontrivial=True, n=0)
        an = contracts.n_anomalies.get('split_table', 0)
        if an:
            # an exhaustive-subspace contract failure on the partition function itself: a lost or
            # duplicated row at this level is a lost or duplicated result row at the boundary
            a = [x for x in contracts.anomalies if x['fn'] == 'split_table'][0]
            rec.violation('split_table', 'split_table(len=%d, k=%d) does not partition its input in '
                          'order: chunk lengths %r (%d such shapes)' % (a['n'], a['k'], a['lens'], an),
                          case={'gen': 'split', 'n': a['n'], 'k': a['k']})
        rec.sample({'workload': 'split_table', 'lens': '0..200', 'k': '1..64'}, limit=1)
    reach.stop()
    for k, v in reach.anchors(ANCHORS).items():
        rec.reach[k] = v
    cs = contracts.summary()
    for k, v in cs['evaluations'].items():
        rec.count('contract_evals.' + k, v)
    for k, v in cs['anomalies'].items():
        rec.count('contract_anomalies.' + k, v)
    contracts.detach()


def finalize(agg, tier):
    c = agg['counters']
    # (d) digests of the fixed case list must agree across processes / hash seeds
    n_cmp = 0
    for k, v in agg['sets'].items():
        if k.startswith('dg_'):
            n_cmp += 1
            if len(v) != 1:
                agg['violations'].append({'property': PROPERTY, 'oracle': 'hashseed', 'message':
                                          'fixed case %s gives different results in processes that differ '
                                          'in PYTHONHASHSEED and in the order the case list is executed: '
                                          '%r' % (k, sorted(v)),
                                          'case': {'gen': 'hash', 'index': int(k[3:])},
                                          'known_key': None})
    c['hashseed_cases_compared'] = n_cmp
    for k in list(agg['sets']):
        if k.startswith('dg_'):
            del agg['sets'][k]
    if c.get('sweep_calls', 0) == 0:
        agg['inconclusive'].append('no chunking sweep call completed')
    if c.get('dispatch_events', 0) == 0:
        agg['inconclusive'].append('the dispatch trace recorded no parallel dispatch')
    if n_cmp == 0:
        agg['inconclusive'].append('no digest compared across hash seeds')


def coverage_extra(agg, tier):
    c = agg['counters']
    return {'sweep_calls': c.get('sweep_calls', 0), 'presentation_calls': c.get('presentation_calls', 0),
            'dispatch_events': c.get('dispatch_events', 0),
            'dispatch_anomalies': c.get('dispatch_anomalies', 0),
            'distinct_chunk_length_vectors': len(agg['sets'].get('chunk_lengths', ())),
            'distinct_(rows,n_jobs,backend)': len(agg['sets'].get('rows_njobs_backend', ())),
            'jobs_with_zero_rows': c.get('jobs_with_zero_rows', 0),
            'delays_injected': c.get('delays_injected', 0),
            'hashseeds': HASHSEEDS, 'hashseed_cases_compared': c.get('hashseed_cases_compared', 0),
            'exhaustive_subspaces': ['split_table: every (len<=200, k<=64) ndarray shape and every '
                                     '(len<60, k<=64) DataFrame shape under the partition contract']}
