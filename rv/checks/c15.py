"""C15 -- invalid arguments are rejected up front; valid ones are never rejected.

W1 rejection matrix: every entry point x every applicable kind of invalid argument x a random valid
context.  Deciding monitors: the documented exception class is raised; between call and raise no
tokenize() reaches the client's tokenizer (no work before rejection, observed on a traced tokenizer
object), and the argument snapshots (tables, candidate set, full tokenizer configuration) are
identical after the raise.  W2 acceptance: valid calls on degenerate shapes (no rows, one row, all
missing, all empty, one-sided missing), object and pandas string dtype, boundary thresholds must
return a DataFrame."""
import random

import numpy as np
import pandas as pd

from rv import env, gen, model, monitors, oracle
from rv import tables as T

PROPERTY = 'C15'
LEVEL = 'exploration'
RULE = ('W1: the matrix {6 joins, 5 filter constructors, 5 filter_tables, filter_candset, apply_matcher, '
        'profile} x applicable invalid-argument kinds (non-DataFrame table, non-Tokenizer tokenizer, '
        'unknown measure, unknown key/join/output attribute, numeric join column, key with duplicates, '
        'key with NaN, threshold 0 / negative / just above 1, unsupported operator, non-q-gram '
        'tokenizer for edit distance) is enumerated completely, each cell with several seeded valid '
        'contexts (bag- or set-mode tokenizer). W2: every entry point x 25 (left shape, right shape) '
        'combinations x {object,str} dtype x allow_missing x n_jobs. Non-trivial = every case (each is '
        'a distinct matrix cell x context); distinct = (entry, kind|shape, seed).')
ASSUMPTIONS = ['documented preconditions are those listed in the property statement']
SHARD_TIMEOUT = {'quick': 600, 'thorough': 3600}

SET_JOINS = ('jaccard_join', 'cosine_join', 'dice_join', 'overlap_coefficient_join', 'overlap_join')
SAFE = ('SizeFilter', 'PrefixFilter', 'PositionFilter', 'SuffixFilter')

TABLE_KINDS = ['ltable_not_df', 'rtable_not_df', 'unknown_l_key', 'unknown_r_key', 'unknown_l_attr',
               'unknown_r_attr', 'numeric_l_attr', 'numeric_r_attr', 'l_key_dup', 'r_key_dup',
               'l_key_nan', 'r_key_nan']
OUT_KINDS = ['unknown_l_out', 'unknown_r_out']
EXPECT = {'ltable_not_df': TypeError, 'rtable_not_df': TypeError, 'candset_not_df': TypeError,
          'tok_not_tokenizer': TypeError, 'bad_measure': TypeError}      # everything else AssertionError

ANCHORS = {
    'validate.table': ('py_stringsimjoin/utils/validation.py', r"raise TypeError\(table_label \+ ' is not a dataframe'\)"),
    'validate.attr': ('py_stringsimjoin/utils/validation.py', r"raise AssertionError\(attr_label"),
    'validate.key': ('py_stringsimjoin/utils/validation.py', r"is not a key attribute"),
    'validate.threshold': ('py_stringsimjoin/utils/validation.py', r"should be in \(0, 1\]"),
    'validate.op': ('py_stringsimjoin/utils/validation.py', r"are >=, > and =\."),
    'validate.tokenizer': ('py_stringsimjoin/utils/validation.py', r"raise TypeError\('Invalid tokenizer provided as input'\)"),
    'validate.measure': ('py_stringsimjoin/utils/validation.py', r"is not a valid "),
}


def matrix():
    cells = []
    for j in SET_JOINS:
        for k in TABLE_KINDS + OUT_KINDS + ['tok_not_tokenizer', 'threshold_bad', 'bad_op']:
            cells.append((j, k))
    for k in TABLE_KINDS + OUT_KINDS + ['tok_not_tokenizer', 'threshold_bad', 'bad_op', 'ed_non_qgram']:
        cells.append(('edit_distance_join', k))
    for f in SAFE:
        for k in ['bad_measure', 'tok_not_tokenizer', 'threshold_bad', 'ed_non_qgram']:
            cells.append(('new:' + f, k))
    for k in ['tok_not_tokenizer', 'threshold_bad', 'bad_op']:
        cells.append(('new:OverlapFilter', k))
    for f in T.FILTERS:
        for k in TABLE_KINDS + OUT_KINDS:
            cells.append(('ft:' + f, k))
    for k in TABLE_KINDS + ['candset_not_df', 'unknown_c_l_key', 'unknown_c_r_key']:
        cells.append(('filter_candset', k))
    for k in [x for x in TABLE_KINDS if not x.startswith('numeric')] + OUT_KINDS + \
            ['candset_not_df', 'unknown_c_l_key', 'unknown_c_r_key', 'tok_not_tokenizer', 'bad_op']:
        cells.append(('apply_matcher', k))
    for k in ['ltable_not_df', 'unknown_profile_attr']:
        cells.append(('profile', k))
    return cells


SHAPES = ['zero', 'one', 'all_missing', 'all_empty', 'normal']
ACCEPT_ENTRIES = list(T.JOINS) + ['ft:' + f for f in T.FILTERS] + ['filter_candset', 'apply_matcher',
                                                                  'profile']


def plan(tier, seed):
    cells = matrix()
    reps = 16 if tier == 'quick' else 120
    shards = []
    nsh = 8
    for i in range(nsh):
        shards.append({'name': 'rej_%d' % i, 'kind': 'rej', 'cells': cells[i::nsh], 'reps': reps,
                       'seed': seed * 1000 + 260 + i})
    shards.append({'name': 'rej_O', 'kind': 'rej', 'cells': cells[3::7], 'reps': max(2, reps // 4),
                   'seed': seed * 1000 + 269, 'optimize': True})
    acc = [(e, a, b) for e in ACCEPT_ENTRIES for a in SHAPES for b in SHAPES]
    nsh = 6
    for i in range(nsh):
        shards.append({'name': 'acc_%d' % i, 'kind': 'acc', 'cells': acc[i::nsh],
                       'reps': 3 if tier == 'quick' else 20, 'seed': seed * 1000 + 270 + i})
    return shards


# ----------------------------------------------------------------------------- valid contexts

def valid_context(rng, entry):
    """A valid call spec for the entry point (tables with >= 2 rows and a numeric extra column)."""
    ed = entry == 'edit_distance_join'
    tok = gen.random_tokenizer(rng, qgram_only=ed)
    L, R, tok = gen.random_table_pair(rng, tok=tok, max_rows=6, missing=0.1, extras=True,
                                      key_kind=rng.choice(['int', 'str', 'int_sparse']))
    for spec, side in ((L, 'l'), (R, 'r')):
        while T.spec_len(spec) < 2:
            n = T.spec_len(spec)
            for c in spec['cols']:
                dt = spec['dtypes'].get(c)
                if c == side + 'id':
                    v = (('%s%03d' % (side.upper(), 900 + n)) if (spec['data'][c] and isinstance(spec['data'][c][0], str))
                         else (5000 + n))
                    if not spec['data'][c] and dt is None:
                        v = 5000 + n
                elif c == side + 'attr':
                    v = 'a b'
                elif str(dt).startswith('int'):
                    v = 1
                elif str(dt).startswith('float'):
                    v = 0.5
                elif dt == 'bool':
                    v = True
                else:
                    v = 'v'
                spec['data'][c].append(v)
            if spec.get('index') is not None:
                spec['index'] = None
        keys = spec['data'][side + 'id']
        if len(set(map(type, keys))) > 1:
            spec['data'][side + 'id'] = list(range(len(keys)))
    call = {'ltable': L, 'rtable': R, 'l_key': 'lid', 'r_key': 'rid', 'l_attr': 'lattr',
            'r_attr': 'rattr', 'tok': tok, 'n_jobs': rng.choice([1, 1, 2]),
            'l_out_attrs': gen.random_out_attrs(rng, L, 'lid', 'lattr'),
            'r_out_attrs': gen.random_out_attrs(rng, R, 'rid', 'rattr')}
    if rng.random() < 0.15:
        # a column the call never names carries a label that is not a string (a year, a tuple, None)
        for spec in (L, R):
            lab = rng.choice([2020, 0, (1, 'a'), None, 1.5])
            spec['cols'] = list(spec['cols']) + [lab]
            spec['data'][lab] = ['z'] * T.spec_len(spec)
            spec['dtypes'][lab] = 'object'
    if rng.random() < 0.2:
        call['show_progress'] = True
    if entry in T.JOINS:
        call['api'] = entry
        call['allow_missing'] = rng.random() < 0.3
        if entry == 'overlap_join':
            call['threshold'] = rng.choice([1, 2])
            call['comp_op'] = rng.choice(['>=', '>', '='])
        elif ed:
            call['threshold'] = rng.choice([0, 1, 2])
            call['comp_op'] = rng.choice(['<=', '<', '='])
        else:
            call['threshold'] = gen.random_threshold(rng)
            call['comp_op'] = rng.choice(['>=', '>', '='])
    elif entry.startswith('new:') or entry.startswith('ft:') or entry == 'filter_candset':
        kind = entry.split(':')[1] if ':' in entry else rng.choice(T.FILTERS)
        if kind == 'OverlapFilter':
            call['filter'] = {'kind': kind, 'overlap_size': rng.choice([1, 2]),
                              'comp_op': rng.choice(['>=', '>', '='])}
        else:
            m = rng.choice(['JACCARD', 'COSINE', 'DICE', 'OVERLAP', 'EDIT_DISTANCE'])
            if m == 'EDIT_DISTANCE':
                call['tok'] = gen.random_tokenizer(rng, qgram_only=True)
            call['filter'] = {'kind': kind, 'measure': m, 'measure_spelling': gen.spell(rng, m),
                              'threshold': (rng.choice([1, 2]) if m == 'OVERLAP' else
                                            rng.choice([0, 1, 2]) if m == 'EDIT_DISTANCE' else
                                            gen.random_threshold(rng))}
        call['api'] = {'new': 'filter_new', 'ft': 'filter_tables'}.get(entry.split(':')[0], 'filter_candset')
        if call['api'] == 'filter_candset':
            call['candset'] = gen.random_candset(rng, L, R, 'lid', 'rid', size=rng.choice([0, 0, 2, 5, 9]))
            call['c_l_key'], call['c_r_key'] = 'l_lid', 'r_rid'
    elif entry == 'apply_matcher':
        call['api'] = 'apply_matcher'
        call['candset'] = gen.random_candset(rng, L, R, 'lid', 'rid', size=rng.choice([0, 0, 2, 5, 9]))
        call['c_l_key'], call['c_r_key'] = 'l_lid', 'r_rid'
        call['sim'] = rng.choice(['JACCARD', 'OVERLAP'])
        call['threshold'] = 0.5
        call['comp_op'] = rng.choice(['>=', '<', '!='])
    elif entry == 'profile':
        L.pop('dup_label', None)
        call = {'api': 'profile', 'ltable': L, 'profile_attrs': rng.choice([None, ['lattr'], ['lid', 'lattr']])}
    return call


NOT_DF = [[1, 2], 'table', 7, None, {'a': [1, 2]}, np.zeros((2, 2))]
NOT_TOK = ['ws', 3, object(), ['a'], None, '', 0, [], {}, False, 0.0, ()]


def make_invalid(rng, entry, kind, call, objs):
    """Mutate (call, objs) so that exactly one documented precondition is violated."""
    side = 'l' if kind.startswith('l') or kind.startswith('unknown_l') or kind.startswith('numeric_l') else 'r'
    tname = 'ltable' if side == 'l' else 'rtable'
    if kind in ('ltable_not_df', 'rtable_not_df'):
        objs['ltable' if kind[0] == 'l' else 'rtable'] = rng.choice(NOT_DF)
        if entry == 'profile':
            objs['ltable'] = rng.choice(NOT_DF)
    elif kind == 'candset_not_df':
        objs['candset'] = rng.choice(NOT_DF)
    elif kind == 'tok_not_tokenizer':
        bad = rng.choice(NOT_TOK)
        if entry == 'apply_matcher' and bad is None:
            bad = 'tok'
        objs['tok'] = bad
        if entry == 'edit_distance_join' and bad is None:
            objs['tok'] = 5
    elif kind == 'bad_measure':
        call['filter'] = dict(call['filter'], measure_spelling=None,
                              measure=rng.choice(['JACCARDX', 'overlap_coefficient', 'LEVENSHTEIN', '', 'tfidf',
                                                  ' jaccard', 'COSINE\n', '\tDICE', 'JACCARD ', ' overlap ']))
    elif kind in ('unknown_l_key', 'unknown_r_key'):
        call[side + '_key'] = 'no_such_key'
    elif kind in ('unknown_l_attr', 'unknown_r_attr'):
        call[side + '_attr'] = 'no_such_attr'
    elif kind in ('unknown_l_out', 'unknown_r_out'):
        cur = list(call.get(side + '_out_attrs') or [])
        cur.insert(rng.randint(0, len(cur)), 'no_such_out')
        call[side + '_out_attrs'] = cur
    elif kind in ('numeric_l_attr', 'numeric_r_attr'):
        spec = call[tname]
        nums = [c for c in spec['cols'] if str(spec['dtypes'].get(c)).startswith(('int', 'float'))
                and c != side + 'id']
        if not nums:        # the table has no numeric column beyond its key: give it one
            spec = dict(spec, cols=list(spec['cols']) + [side + 'x_num'],
                        data=dict(spec['data']), dtypes=dict(spec['dtypes']))
            spec['data'][side + 'x_num'] = [float(i) for i in range(T.spec_len(call[tname]))]
            spec['dtypes'][side + 'x_num'] = 'float64'
            call[tname] = spec
            nums = [side + 'x_num']
        call[side + '_attr'] = rng.choice(nums)
        col = call[side + '_attr']
        if str(call[tname]['dtypes'].get(col)).startswith('float') and rng.random() < 0.4:
            # a float column holding nothing but NaN is still a numeric column
            spec = dict(call[tname], data=dict(call[tname]['data']))
            spec['data'][col] = [gen.NAN] * T.spec_len(spec)
            call[tname] = spec
    elif kind in ('l_key_dup', 'r_key_dup'):
        spec = dict(call[tname])
        spec['data'] = dict(spec['data'])
        keys = list(spec['data'][side + 'id'])
        keys[-1] = keys[0]
        spec['data'][side + 'id'] = keys
        call[tname] = spec
    elif kind in ('l_key_nan', 'r_key_nan'):
        spec = dict(call[tname])
        spec['data'] = dict(spec['data'])
        if rng.random() < 0.25 and T.spec_len(spec) > 1 and entry not in ('filter_candset', 'apply_matcher'):
            # a table of exactly one row whose key is missing (uniqueness is trivial, the missing
            # value is not)
            spec['data'] = dict((c, list(v[:1])) for c, v in spec['data'].items())
            if spec.get('index') is not None:
                spec['index'] = list(spec['index'][:1])
        keys = list(spec['data'][side + 'id'])
        pos = rng.randrange(len(keys))
        spec['dtypes'] = dict(spec['dtypes'])
        if all(isinstance(k, int) for k in keys) and rng.random() < 0.5:
            keys[pos] = None                                   # pandas nullable integer key with one <NA>
            spec['dtypes'][side + 'id'] = 'Int64'
        else:
            keys[pos] = None if isinstance(keys[0], str) else gen.NAN
            spec['dtypes'].pop(side + 'id', None)             # int32/int64 cannot hold NaN: let pandas infer
        spec['data'][side + 'id'] = keys
        if isinstance(keys[0], str) or isinstance(keys[-1], str):
            spec['dtypes'][side + 'id'] = 'object'
        call[tname] = spec
    elif kind == 'threshold_bad':
        if 'filter' in call:
            f = dict(call['filter'])
            if f['kind'] == 'OverlapFilter':
                f['overlap_size'] = rng.choice([0, -1, -0.5, gen.NAN, float('-inf')])
            elif f['measure'] == 'OVERLAP':
                f['threshold'] = rng.choice([0, -1, -2.5, gen.NAN, float('-inf')])
            elif f['measure'] == 'EDIT_DISTANCE':
                f['threshold'] = rng.choice([-1, -0.5, -3, gen.NAN, float('-inf')])
            else:
                f['threshold'] = rng.choice([0, 0.0, -0.3, 1.0000001, 1.5, 2, -1, gen.NAN, float('inf'), float('-inf')])
            call['filter'] = f
        elif entry == 'overlap_join':
            call['threshold'] = rng.choice([0, -1, -0.5, gen.NAN, float('-inf')])
        elif entry == 'edit_distance_join':
            call['threshold'] = rng.choice([-1, -0.5, -4, gen.NAN, float('-inf')])
        else:
            call['threshold'] = rng.choice([0, 0.0, -0.3, 1.0000001, 1.5, 2, -1, gen.NAN, float('inf'), float('-inf')])
    elif kind == 'bad_op':
        if 'filter' in call:
            call['filter'] = dict(call['filter'], comp_op=rng.choice(['<=', '<', '!=', 'ge', '']))
        elif entry == 'edit_distance_join':
            call['comp_op'] = rng.choice(['>=', '>', '!=', 'le', ''])
        elif entry == 'apply_matcher':
            call['comp_op'] = rng.choice(['==', 'ge', '', '=>', '<>'])
        else:
            call['comp_op'] = rng.choice(['<=', '<', '!=', 'ge', ''])
    elif kind == 'ed_non_qgram':
        if 'filter' in call:
            call['filter'] = dict(call['filter'], measure='EDIT_DISTANCE', threshold=rng.choice([0, 1, 2]),
                                  measure_spelling=gen.spell(rng, 'EDIT_DISTANCE'))
        call['tok'] = dict(rng.choice([{'kind': 'ws'}, {'kind': 'alnum'}, {'kind': 'delim', 'delims': [',']}]),
                           return_set=rng.random() < 0.5)
    elif kind in ('unknown_c_l_key', 'unknown_c_r_key'):
        call['c_l_key' if 'c_l' in kind else 'c_r_key'] = 'no_such_candset_col'
    elif kind == 'unknown_profile_attr':
        call['profile_attrs'] = ['lattr', 'no_such_attr']
    else:
        raise ValueError(kind)


def snapshot_objs(objs):
    out = {}
    for k, v in objs.items():
        if isinstance(v, pd.DataFrame):
            out[k] = T.snapshot_df(v)
    return out


def reject_case(case, rec, ssj):
    rng = random.Random(case['seed'])
    entry, kind = case['entry'], case['kind']
    call = valid_context(rng, entry)
    objs = {}
    make_invalid(rng, entry, kind, call, objs)
    # build the (remaining) shared argument objects so that we can look at them after the raise
    for name in ('ltable', 'rtable', 'candset'):
        if name not in objs and call.get(name) is not None:
            objs[name] = T.make_table(call[name])
    if 'tok' not in objs and call.get('tok') is not None:
        objs['tok'] = T.make_tokenizer(call['tok'], cls_override=monitors.traced_class)
    default_tok = None
    if entry == 'edit_distance_join' and kind not in ('tok_not_tokenizer', 'ed_non_qgram') and rng.random() < 0.3:
        default_tok = monitors.trace_instance(ssj.edit_distance_join.__defaults__[-1])
        objs.pop('tok', None)
        call['tok'] = None
    before = snapshot_objs(objs)
    watched = objs.get('tok') if hasattr(objs.get('tok'), 'get_return_set') else default_tok
    tok_before = T.tokenizer_state(watched) if watched is not None else None
    n_tok_before = monitors.tok_counts(watched)[0] if watched is not None else 0
    n_flips_before = len(monitors.tok_counts(watched)[1]) if watched is not None else 0
    tag = '%s / %s: ' % (entry, kind)
    expect = EXPECT.get(kind, AssertionError)
    raised = None
    try:
        res = T.exec_call(ssj, call, objs)
    except Exception as e:
        raised = e
    rec.count('rejection_cases')
    if raised is None:
        rec.violation('not_rejected', tag + 'the call was accepted (returned %s) although %s'
                      % (type(res).__name__, describe(kind, call, objs)), case=case)
        return
    if type(raised) is not expect:
        rec.violation('exception_class', tag + 'raised %s(%s), documented is %s (%s)'
                      % (type(raised).__name__, str(raised)[:120], expect.__name__, describe(kind, call, objs)),
                      case=case)
    after = snapshot_objs(objs)
    for k in before:
        rec.count('argument_snapshots_compared')
        if after.get(k) != before[k]:
            rec.violation('arguments_changed', tag + 'argument %s differs after the rejection: before %r '
                          'after %r' % (k, _short(before[k]), _short(after.get(k))), case=case)
    if watched is not None:
        rec.count('tokenizer_traces_checked')
        n_tok = monitors.tok_counts(watched)[0] - n_tok_before
        flips = len(monitors.tok_counts(watched)[1]) - n_flips_before
        if n_tok:
            rec.violation('work_before_rejection', tag + '%d tokenize() calls reached the tokenizer '
                          'before the call was rejected' % n_tok, case=case)
        if flips:
            rec.count('flag_flips_before_rejection', flips)   # restored or not is decided on the state
        st = T.tokenizer_state(watched)
        if st != tok_before:
            rec.violation('tokenizer_changed', tag + 'the rejected call left the tokenizer changed: '
                          'before %r after %r' % (tok_before, st), case=case)
            watched.__dict__['return_set'] = eval(tok_before['return_set'])


def _short(x):
    s = repr(x)
    return s if len(s) < 300 else s[:300] + '...'


def describe(kind, call, objs):
    if kind.endswith('not_df'):
        return 'a table argument is %r' % (type(objs.get('ltable', objs.get('rtable', objs.get('candset')))).__name__,)
    if kind == 'tok_not_tokenizer':
        return 'tokenizer is %r' % (objs.get('tok'),)
    if kind == 'threshold_bad':
        return 'threshold is %r' % (call.get('threshold', call.get('filter', {}).get('threshold', call.get('filter', {}).get('overlap_size'))),)
    if kind == 'bad_op':
        return 'comp_op is %r' % (call.get('comp_op', call.get('filter', {}).get('comp_op')),)
    if kind == 'bad_measure':
        return 'sim_measure_type is %r' % (call['filter']['measure'],)
    return kind


# ----------------------------------------------------------------------------- acceptance

def shape_table(rng, side, shape, dtype):
    if shape == 'zero':
        n, vals = 0, []
    elif shape == 'one':
        n, vals = 1, [rng.choice(['a b', '', 'ab'])]
    elif shape == 'all_missing':
        n = rng.randint(1, 4)
        vals = [None if rng.random() < 0.5 else gen.NAN for _ in range(n)]
    elif shape == 'all_empty':
        n = rng.randint(1, 4)
        vals = [''] * n
    else:
        n = rng.randint(2, 5)
        vals = [rng.choice(['a b', 'a b c', 'b c', 'abc', None, '']) for _ in range(n)]
        if shape == 'normal' and rng.random() < 0.3:
            vals = [v if v is not None else 'a' for v in vals]      # one-sided missing arises here
    keys = list(range(10, 10 + n))
    cols = [side + 'id', side + 'attr', side + 'x']
    xs = [None if (shape == 'normal' and rng.random() < 0.4) else 'x%d' % i for i in range(n)]
    return {'cols': cols, 'data': {side + 'id': keys, side + 'attr': vals, side + 'x': xs},
            'index': None, 'dtypes': {side + 'id': 'int64', side + 'attr': dtype, side + 'x': 'object'}}


def accept_case(case, rec, ssj):
    rng = random.Random(case['seed'])
    entry, ls, rs = case['entry'], case['lshape'], case['rshape']
    dtype = case['dtype']
    L, R = shape_table(rng, 'l', ls, dtype), shape_table(rng, 'r', rs, dtype)
    ed = entry == 'edit_distance_join'
    tok = {'kind': 'qgram', 'q': 2, 'padding': rng.random() < 0.5, 'return_set': rng.random() < 0.5} if ed \
        else rng.choice([{'kind': 'ws', 'return_set': True}, {'kind': 'ws', 'return_set': False},
                         {'kind': 'qgram', 'q': 2, 'padding': False, 'return_set': True}])
    call = {'ltable': L, 'rtable': R, 'l_key': 'lid', 'r_key': 'rid', 'l_attr': 'lattr', 'r_attr': 'rattr',
            'tok': tok, 'n_jobs': case['n_jobs'], 'l_out_attrs': rng.choice([None, ['lx'], ['lattr']]),
            'r_out_attrs': rng.choice([None, ['rx']])}
    am = case['allow_missing']
    if case.get('keyjoin'):
        # the (unique, never missing) string column is key AND join attribute of its table
        for spec, side in ((L, 'l'), (R, 'r')):
            n = T.spec_len(spec)
            spec['data'][side + 'attr'] = ['%s w%d' % (rng.choice(['a b', 'b c', 'a']), i) for i in range(n)]
        call['l_key'] = 'lattr'
        call['r_key'] = 'rattr'
        call['l_out_attrs'] = rng.choice([None, ['lx'], ['lattr', 'lid']])
        call['r_out_attrs'] = rng.choice([None, ['rx', 'rid']])
        if rng.random() < 0.3:
            L['no_duplicate_labels'] = R['no_duplicate_labels'] = True     # df.set_flags(allows_duplicate_labels=False)
            call['keep_flags'] = True
    if entry in T.JOINS:
        call['api'] = entry
        call['allow_missing'] = am
        call['out_sim_score'] = rng.random() < 0.8
        if entry == 'overlap_join':
            call['threshold'] = rng.choice([1, 1, 1.0, 1.5])
        elif ed:
            call['threshold'] = rng.choice([0, 0, 1, 2, 1.0, 1.5, 0.0])
        else:
            call['threshold'] = rng.choice([1.0, 1.0, 0.5, 1e-9, 1e-160, 1e-300, 5e-324])
    elif entry.startswith('ft:') or entry == 'filter_candset':
        kind = entry[3:] if entry.startswith('ft:') else rng.choice(T.FILTERS)
        if kind == 'OverlapFilter':
            call['filter'] = {'kind': kind, 'overlap_size': 1, 'allow_missing': am}
            call['out_sim_score'] = rng.random() < 0.5
        else:
            m = rng.choice(['JACCARD', 'COSINE', 'DICE', 'OVERLAP'])
            call['filter'] = {'kind': kind, 'measure': m, 'threshold': rng.choice([1, 1, 1.0, 1.5, 2.0]) if m == 'OVERLAP' else rng.choice([1.0, 0.5, 0.5, 1e-160, 1e-300, 5e-324]),
                              'allow_missing': am, 'measure_spelling': gen.spell(rng, m)}
            if rng.random() < 0.15 and T.spec_len(L) and T.spec_len(R):
                # edit distance needs a q-gram tokenizer (bag mode)
                call['filter'].update(measure='EDIT_DISTANCE', threshold=rng.choice([0, 1, 2, 1.0, 1.5, 0.5, 0.0]),
                                      measure_spelling=gen.spell(rng, 'EDIT_DISTANCE'))
                call['tok'] = {'kind': 'qgram', 'q': 2, 'padding': True, 'return_set': False}
        call['api'] = 'filter_tables' if entry.startswith('ft:') else 'filter_candset'
    if entry in ('filter_candset', 'apply_matcher'):
        call['candset'] = gen.random_candset(rng, L, R, call['l_key'], call['r_key'],
                                             size=rng.choice([0, 1, 3, 6, 14]), extra_cols=False)
        call['c_l_key'], call['c_r_key'] = 'l_' + call['l_key'], 'r_' + call['r_key']
        if T.spec_len(call['candset']) == 0:
            call['candset']['dtypes'] = {'_id': 'int64', call['c_l_key']: 'int64', call['c_r_key']: 'int64'}
    if entry == 'apply_matcher':
        call['api'] = 'apply_matcher'
        call['sim'] = 'JACCARD'
        call['threshold'] = rng.choice([0.5, 1.0, 0])
        call['comp_op'] = rng.choice(['>=', '<=', '=', '!='])
        call['allow_missing'] = am
    if entry == 'profile':
        # either table (different column names), with the attribute list given, None, or omitted
        side = rng.choice('lr')
        tbl = L if side == 'l' else R
        tbl.pop('dup_label', None)
        call = {'api': 'profile', 'ltable': tbl}
        r = rng.random()
        if r < 0.3:
            call['profile_attrs'] = None
        elif r < 0.6:
            call['profile_attrs'] = rng.choice([[side + 'attr'], [side + 'id', side + 'x']])
    # numbers handed over as numpy scalars (values exactly representable in the narrow types)
    if rng.random() < 0.25:
        th = call.get('threshold', call.get('filter', {}).get('threshold', call.get('filter', {}).get('overlap_size')))
        if th is not None and not isinstance(th, bool):
            if isinstance(th, int):
                how = rng.choice(['int64', 'int32', 'int16', 'uint8', 'float64', 'float32'])
            elif th in (1.0, 0.5, 0.25, 0.75):
                how = rng.choice(['float64', 'float32', 'float16'])
            else:
                how = 'float64'
            if 'filter' in call:
                call['filter'] = dict(call['filter'], threshold_np=how)
            if 'threshold' in call:
                call['threshold_np'] = how
            rec.count('acceptance_numpy_thresholds')
            rec.add('numpy_threshold_types', how)
    if rng.random() < 0.3 and call.get('api') != 'profile':
        call['show_progress'] = True          # the documented default
    rec.count('acceptance_cases')
    tag = '%s left=%s right=%s dtype=%s allow_missing=%r n_jobs=%r%s: ' % (
        entry, ls, rs, dtype, am, case['n_jobs'], ' key==join attribute' if case.get('keyjoin') else '')
    try:
        res = T.exec_call(ssj, call)
    except Exception as e:
        known = None
        if type(e).__name__ == 'DuplicateLabelError' and call.get('keep_flags') and case.get('keyjoin'):
            known = 'flagged-frame-key-is-join-attr'        # F15: mechanism = the library's own [key, join] projection
        rec.violation('valid_rejected', tag + 'a call satisfying every documented precondition raised '
                      '%s: %s' % (type(e).__name__, str(e)[:200]), case=case, known_key=known)
        return
    if not isinstance(res, pd.DataFrame):
        rec.violation('not_a_dataframe', tag + 'returned %s' % type(res).__name__, case=case)


def run_case(case, rec, ssj=None):
    ssj = ssj or env.load()
    if case['gen'] == 'rej':
        return reject_case(case, rec, ssj)
    return accept_case(case, rec, ssj)


def run_shard(shard, rec):
    ssj = env.load()
    monitors.import_repo_modules()
    reach = monitors.Reach()
    reach.start()
    n = 0
    if shard['kind'] == 'rej':
        for (entry, kind) in shard['cells']:
            for r in range(shard['reps']):
                case = {'gen': 'rej', 'entry': entry, 'kind': kind, 'seed': shard['seed'] * 100000 + n}
                n += 1
                reject_case(case, rec, ssj)
                rec.case(sig=('rej', entry, kind, case['seed']), nontrivial=True)
            rec.add('matrix_cell', (entry, kind))
        rec.sample({'workload': 'rejection matrix', 'cells_in_shard': shard['cells'][:6]}, limit=1)
    else:
        for (entry, ls, rs) in shard['cells']:
            for r in range(shard['reps']):
                for dtype in ('object', 'str'):
                    for am in (False, True):
                        for nj in (1, 2):
                            if entry == 'profile' and (am or nj == 2 or rs != 'normal'):
                                continue
                            case = {'gen': 'acc', 'entry': entry, 'lshape': ls, 'rshape': rs,
                                    'dtype': dtype, 'allow_missing': am, 'n_jobs': nj,
                                    'seed': shard['seed'] * 100000 + n,
                                    'keyjoin': (ls in ('zero', 'one', 'normal') and rs in ('zero', 'one', 'normal')
                                                and entry != 'profile' and (n % 3 == 0))}
                            n += 1
                            accept_case(case, rec, ssj)
                            rec.case(sig=('acc', entry, ls, rs, dtype, am, nj, r), nontrivial=True)
            rec.add('acceptance_cell', (entry, ls, rs))
        rec.sample({'workload': 'acceptance', 'shapes': SHAPES, 'cells_in_shard': shard['cells'][:4]}, limit=1)
    reach.stop()
    for k, v in reach.anchors(ANCHORS).items():
        rec.reach[k] = v


def finalize(agg, tier):
    c = agg['counters']
    if c.get('rejection_cases', 0) == 0 or c.get('acceptance_cases', 0) == 0:
        agg['inconclusive'].append('one half of the check did not run')
    if c.get('tokenizer_traces_checked', 0) == 0:
        agg['inconclusive'].append('no tokenizer trace was checked')
    want = len(matrix())
    got = len(agg['sets'].get('matrix_cell', ()))
    if got < want:
        agg['inconclusive'].append('only %d of %d matrix cells were exercised' % (got, want))


def coverage_extra(agg, tier):
    c = agg['counters']
    return {'matrix_cells': len(agg['sets'].get('matrix_cell', ())),
            'rejection_cases': c.get('rejection_cases', 0),
            'acceptance_cells': len(agg['sets'].get('acceptance_cell', ())),
            'acceptance_cases': c.get('acceptance_cases', 0),
            'tokenizer_traces_checked': c.get('tokenizer_traces_checked', 0),
            'argument_snapshots_compared': c.get('argument_snapshots_compared', 0),
            'flag_flips_before_rejection(restored)': c.get('flag_flips_before_rejection', 0),
            'exhaustive_subspaces': ['the rejection matrix entry point x applicable invalid kind (%d cells)' % len(matrix()),
                                     'acceptance: entry point x left shape x right shape (%d cells) x dtype x allow_missing x n_jobs'
                                     % (len(ACCEPT_ENTRIES) * 25)]}
