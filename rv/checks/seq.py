"""Call sequences inside ONE process that share (and re-configure) tokenizer objects.

Module-level or object-level memoisation keyed without the tokenizer's configuration (q, padding,
delimiters) is invisible to single calls; it shows when the same process joins first with one
configuration and then with another on strings / token counts it has seen before.  Each step of a
sequence is judged by the ordinary boundary oracle of the property (passed in as `judge`)."""
import random

from rv import gen, model
from rv import tables as T

POOL_ALPHA = ['ab', 'abc', 'abcd']


def string_pool(rng, n=14):
    alpha = rng.choice(POOL_ALPHA)
    base = [''.join(rng.choice(alpha) for _ in range(rng.choice([3, 4, 5, 6, 7, 9]))) for _ in range(4)]
    out = list(base)
    while len(out) < n:
        s = rng.choice(base)
        for _ in range(rng.randint(0, 2)):
            r = rng.random()
            if r < 0.34 and s:
                i = rng.randrange(len(s)); s = s[:i] + s[i + 1:]
            elif r < 0.67:
                i = rng.randint(0, len(s)); s = s[:i] + rng.choice(alpha) + s[i:]
            elif s:
                i = rng.randrange(len(s)); s = s[:i] + rng.choice(alpha) + s[i + 1:]
        out.append(s)
    return out


def word_pool(rng, n=14):
    vocab = ['aa', 'bb', 'cc', 'dd', 'ee', 'ff']
    seps = [' ', ',']
    out = []
    for _ in range(n):
        k = rng.randint(1, 5)
        ws = [rng.choice(vocab) for _ in range(k)]
        s = ws[0]
        for w in ws[1:]:
            s += rng.choice(seps) + w
        out.append(s)
    return out


def run_sequence(ssj, rng, rec, judge, edit=False, steps=None):
    """One sequence: a shared tokenizer object re-configured through its public setters between
    joins over tables drawn from one string pool.  judge(df, call, rec, case_step) applies the
    property's oracle.  Returns the number of completed steps."""
    import py_stringmatching as sm
    kind = 'qgram' if edit or rng.random() < 0.6 else 'delim'
    if kind == 'qgram':
        tok = sm.QgramTokenizer(qval=2, return_set=rng.random() < 0.5)
        spec = {'kind': 'qgram', 'q': 2, 'padding': True, 'return_set': tok.get_return_set()}
        pool = string_pool(rng)
    else:
        tok = sm.DelimiterTokenizer(delim_set=set([' ']), return_set=rng.random() < 0.5)
        spec = {'kind': 'delim', 'delims': [' '], 'return_set': tok.get_return_set()}
        pool = word_pool(rng)
    done = 0
    threshold = rng.choice([1, 2]) if edit else rng.choice([0.3, 0.5, 0.6])
    for step in range(steps or rng.randint(3, 5)):
        # re-configure the SAME object (first step keeps the initial configuration)
        if step:
            if kind == 'qgram':
                r = rng.random()
                if r < 0.6:
                    q = rng.choice([1, 2, 3, 4])
                    tok.set_qval(q)
                    spec['q'] = q
                elif r < 0.8:
                    p = not spec['padding']
                    tok.set_padding(p)
                    spec['padding'] = p
                else:
                    tok = sm.QgramTokenizer(qval=rng.choice([2, 3]), return_set=spec['return_set'])
                    spec.update(q=tok.qval, padding=True)
            else:
                d = rng.choice([[' '], [','], [' ', ',']])
                tok.set_delim_set(set(d))
                spec['delims'] = d
        if rng.random() < 0.3 and not edit:
            threshold = rng.choice([0.3, 0.5, 0.6])
        nl, nr = rng.randint(2, 8), rng.randint(2, 8)
        L = T.table_spec(['id', 's'], [[i, rng.choice(pool)] for i in range(nl)], dtypes={'s': 'object'})
        R = T.table_spec(['id', 's'], [[i, rng.choice(pool)] for i in range(nr)], dtypes={'s': 'object'})
        call = {'ltable': L, 'rtable': R, 'l_key': 'id', 'r_key': 'id', 'l_attr': 's', 'r_attr': 's',
                'tok': dict(spec), 'threshold': threshold, 'n_jobs': 1, 'out_sim_score': True}
        if edit:
            call['api'] = 'edit_distance_join'
            call['comp_op'] = '<='
        else:
            call['api'] = rng.choice(['jaccard_join', 'cosine_join', 'dice_join'])
            call['comp_op'] = '>='
        try:
            df = T.exec_call(ssj, call, {'tok': tok})
        except Exception as e:
            rec.count('calls_raised')
            rec.add('raised', 'seq %s: %s' % (type(e).__name__, str(e)[:80]))
            continue
        judge(df, call, rec, step)
        done += 1
        rec.count('sequence_steps')
        rec.add('seq_config', (spec['kind'], spec.get('q'), spec.get('padding'), tuple(spec.get('delims', ()))))
    return done
