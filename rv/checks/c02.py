"""C02 -- set-similarity joins return only qualifying pairs, once, with the true score.

Deciding oracle (boundary): every output row that does not stem from a missing value names existing
keys, occurs once per key pair, is not `forbidden` in the reference model, and carries a score that
equals a legitimate evaluation (4-decimal rounding for Jaccard/cosine/Dice, exact quotient for
overlap coefficient, integer overlap for overlap_join, 1.0 for admitted empty-empty pairs)."""
import random

from rv import env, gen, model, monitors, oracle
from rv import tables as T
from rv.checks import c01

PROPERTY = 'C02'
LEVEL = 'exploration'
RULE = ('cases = real join executions: W3 seeded random hostile tables with every combination of '
        'out_sim_score / output attributes / NaN rows interleaved / n_jobs (threading backend, '
        'chunk-relative ids), NM near-miss tables holding for every (a,b)<=N a pair one shared token '
        'short of qualifying and one exactly qualifying, W2 all arrangements of small sets at every '
        'separating threshold and every operator, W4 exact-score thresholds of sets up to 64 tokens '
        '(with > the boundary pairs must be absent), W5 every (a,b,o) up to N with rare shared tokens at '
        'thresholds next to attained scores with and without the score column, LARGE planted tables '
        'with near misses, AMBIG token sets, colliding output labels. Non-trivial = the output had at least one row '
        'whose score was checked; distinct = distinct (workload, parameters, table digest).')
ASSUMPTIONS = c01.ASSUMPTIONS
SHARD_TIMEOUT = {'quick': 600, 'thorough': 3600}
DECIDE = {'sound', 'once', 'score', 'keys'}


def plan(tier, seed):
    shards = []
    n3 = 1500 if tier == 'quick' else 15000
    for i in range(8):
        shards.append({'name': 'w3_%d' % i, 'kind': 'w3', 'n': n3, 'seed': seed * 1000 + 20 + i})
    shards.append({'name': 'w3_O', 'kind': 'w3', 'n': 300 if tier == 'quick' else 3000, 'seed': seed * 1000 + 29,
                   'optimize': True})
    rng = random.Random(seed * 1000 + 5)
    ths = gen.threshold_pool('basic' if tier == 'quick' else 'neighbours')
    combos = [(m, t) for m in c01.MEASURES3 + ('OVERLAP_COEFFICIENT',) for t in ths]
    rng.shuffle(combos)
    if tier == 'quick':
        combos = combos[:160]
    for i in range(6):
        shards.append({'name': 'nm_%d' % i, 'kind': 'nm', 'N': 30 if tier == 'quick' else 60,
                       'combos': combos[i::6]})
    shards.append({'name': 'seq', 'kind': 'seq', 'n': 250 if tier == 'quick' else 3000,
                   'seed': seed * 1000 + 6})
    w4 = gen.exact_score_plan(random.Random(seed * 1000 + 45), c01.MEASURES4,
                              80 if tier == 'quick' else 2500)
    w4 = [(m, t, ('>', '>=', '>', '=')[i % 4]) for i, (m, t, _) in enumerate(w4)]
    nw4 = 2 if tier == 'quick' else 8
    for i in range(nw4):
        shards.append({'name': 'w4_%d' % i, 'kind': 'w4', 'combos': w4[i::nw4], 'seed': seed * 1000 + 60 + i})
    for i in range(2):
        shards.append({'name': 'w5_%d' % i, 'kind': 'w5', 'N': 7 if tier == 'quick' else 10,
                       'n': 24 if tier == 'quick' else 250, 'seed': seed * 1000 + 70 + i})
    shards.append({'name': 'idkey', 'kind': 'idkey', 'n': 30 if tier == 'quick' else 300, 'seed': seed * 1000 + 75})
    shards.append({'name': 'u64', 'kind': 'u64', 'n': 40 if tier == 'quick' else 400, 'seed': seed * 1000 + 74})
    shards.append({'name': 'unbalanced', 'kind': 'unbalanced', 'n': 150 if tier == 'quick' else 2000, 'seed': seed * 1000 + 76})
    shards.append({'name': 'ambig', 'kind': 'ambig', 'n': 60 if tier == 'quick' else 800, 'seed': seed * 1000 + 73})
    shards.append({'name': 'large', 'kind': 'large', 'sizes': [1100, 2300] if tier == 'quick' else
                   [600, 1100, 2300, 4100, 9000]})
    S = 4 if tier == 'quick' else 5
    shards.append({'name': 'w2_a', 'kind': 'w2', 'S': S, 'part': 0, 'parts': 2})
    shards.append({'name': 'w2_b', 'kind': 'w2', 'S': S, 'part': 1, 'parts': 2})
    return shards


def near_miss_call(measure, t, N, op):
    """For every (a,b)<=N: one group whose pair is exactly qualifying and one group whose pair is
    one shared token short (forbidden unless it straddles)."""
    sizes = [(a, b) for a in range(1, N + 1) for b in range(1, N + 1)]
    L1, R1, g1 = gen.tight_tables(measure, t, sizes)
    L2, R2, g2 = gen.tight_tables(measure, t, sizes, extra_overlap=-1, id_base=100000)
    # rename the tokens of the second family so the groups stay disjoint
    def ren(spec):
        spec['data']['s'] = [' '.join('n' + w for w in v.split(' ')) for v in spec['data']['s']]
        return spec
    L2, R2 = ren(L2), ren(R2)
    L = T.table_spec(['id', 's'], T.spec_rows(L1) + T.spec_rows(L2), dtypes={'s': 'object'})
    R = T.table_spec(['id', 's'], T.spec_rows(R1) + T.spec_rows(R2), dtypes={'s': 'object'})
    return {'api': T.MEASURE_JOIN[measure], 'ltable': L, 'rtable': R, 'l_key': 'id', 'r_key': 'id',
            'l_attr': 's', 'r_attr': 's', 'tok': {'kind': 'ws', 'return_set': False},
            'threshold': t, 'comp_op': op, 'n_jobs': 1, 'out_sim_score': True}


def unbalanced_call(case):
    """Short records (3-5 tokens) against long ones (50-90 tokens) over one small universe at thresholds
    low enough for a size ratio beyond 16: the verification step sees very unequal token lists, with
    shared and unshared tokens of the short record interleaved in the global order."""
    rng = random.Random(case['seed'])
    uni = ['u%03d' % i for i in range(rng.choice([100, 140]))]
    api = case['api']
    t = {'jaccard_join': [0.01, 0.02, 0.04, 0.055], 'cosine_join': [0.05, 0.1, 0.2, 0.24],
         'dice_join': [0.02, 0.05, 0.1]}[api]

    def rec_(n):
        return ' '.join(rng.sample(uni, n))
    lv = [rec_(rng.randint(3, 5)) for _ in range(rng.randint(3, 6))] + [rec_(rng.randint(50, 90))]
    rv = [rec_(rng.randint(50, 90)) for _ in range(rng.randint(3, 6))] + [rec_(rng.randint(3, 5))]
    rng.shuffle(lv)
    rng.shuffle(rv)
    L = T.table_spec(['lid', 'lattr'], [[i + 1, v] for i, v in enumerate(lv)], dtypes={'lattr': 'object'})
    R = T.table_spec(['rid', 'rattr'], [[10 + i, v] for i, v in enumerate(rv)], dtypes={'rattr': 'object'})
    return {'api': api, 'ltable': L, 'rtable': R, 'l_key': 'lid', 'r_key': 'rid', 'l_attr': 'lattr',
            'r_attr': 'rattr', 'tok': {'kind': 'ws', 'return_set': True}, 'threshold': rng.choice(t),
            'comp_op': rng.choice(['>=', '>=', '>']), 'out_sim_score': True, 'n_jobs': rng.choice([1, 1, 2])}


def materialise(case):
    if case['gen'] == 'nm':
        return near_miss_call(case['measure'], case['threshold'], case['N'], case['comp_op'])
    if case['gen'] == 'unbalanced':
        return unbalanced_call(case)
    return c01.materialise(case)


def run_case(case, rec, ssj=None, views=None):
    ssj = ssj or env.load()
    if case['gen'] == 'seq':
        from rv.checks import seq

        def judge(df, call, rec_, step):
            st = oracle.check_set_join(df, call, T.JOIN_MEASURE[call['api']], rec_, DECIDE,
                                       case=dict(case, step=step), tag='[sequence step %d] ' % step)
            st['output_rows'] = len(df)
            for k, v in st.items():
                rec_.count(k, v)
        seq.run_sequence(ssj, random.Random(case['seed']), rec, judge)
        return {'scores_checked': 1}
    call = materialise(case)
    measure = T.JOIN_MEASURE[call['api']]
    try:
        df = T.exec_call(ssj, call)
    except Exception as e:
        rec.count('calls_raised')
        rec.add('raised', '%s: %s' % (type(e).__name__, str(e)[:80]))
        return None
    key = ('w2', case['S']) if (views is not None and case['gen'] == 'w2') else \
        (('w5', case['N']) if (views is not None and case['gen'] == 'w5') else None)
    view = views.get(key) if key else None
    if view is None:
        view = oracle.TableView(call)
        if key:
            views[key] = view
    view.call = call
    stats = oracle.check_set_join(df, call, measure, rec, DECIDE, view=view, case=case)
    oracle.check_ids(df, rec, case=case)
    stats['output_rows'] = len(df)
    for k, v in stats.items():
        rec.count(k, v)
    return stats


KNOWN_U64 = 'uint64-keys-concat-float'


def u64_case(case, rec, ssj):
    """Keys of dtype uint64 with values on both sides of 2**63.  Open finding F14: when the result is
    assembled with pd.concat from parts whose key columns were inferred as int64 (all keys below
    2**63) and uint64, pandas upcasts the column to float64 and the ids beyond 2**53 are no longer
    the ids of any row.  Exactly that mechanism is classified (known); everything else is judged."""
    rng = random.Random(case['seed'])
    words = ['a', 'b', 'c', 'd', 'e', 'f']
    out = []
    for side in 'lr':
        n = rng.randint(2, 8)
        pool = [2 ** 63 + k for k in range(-3, 12)] + [1, 2, 3, 5, 2 ** 64 - 1, 2 ** 62]
        keys = rng.sample(pool, n)
        vals = [None if rng.random() < 0.12 else ' '.join(rng.sample(words, rng.randint(1, 4))) for _ in range(n)]
        out.append(T.table_spec(['id', 's'], [[k, v] for k, v in zip(keys, vals)], dtypes={'id': 'uint64', 's': 'object'}))
    L, R = out
    api = rng.choice(['jaccard_join', 'cosine_join', 'dice_join', 'overlap_coefficient_join', 'overlap_join'])
    call = {'api': api, 'ltable': L, 'rtable': R, 'l_key': 'id', 'r_key': 'id', 'l_attr': 's', 'r_attr': 's',
            'tok': {'kind': 'ws', 'return_set': True}, 'threshold': 1 if api == 'overlap_join' else rng.choice([0.3, 0.5, 1.0]),
            'comp_op': '>=', 'allow_missing': rng.random() < 0.4, 'n_jobs': rng.choice([1, 1, 2, 3]),
            'out_sim_score': True, 'warm': None, 'positional': False}
    try:
        df = T.exec_call(ssj, call)
    except Exception as e:
        rec.add('raised', '%s: %s' % (type(e).__name__, str(e)[:80]))
        return 0
    rec.count('u64_cases')
    import numpy as np
    floaty = [c for c in ('l_id', 'r_id') if str(df[c].dtype).startswith('float') or
              any(isinstance(v, (float, np.floating)) for v in df[c].tolist())]
    assembled = call['n_jobs'] > 1 or call['allow_missing']
    if floaty and len(df):
        lk = set(L['data']['id'])
        rk = set(R['data']['id'])
        bad = [(a, b) for a, b in zip(df['l_id'].tolist(), df['r_id'].tolist())
               if not (a in lk and float(a) == a and int(a) in lk and b in rk and int(b) in rk)]
        lossy = any(isinstance(v, (float, np.floating)) and v >= 2 ** 53 for c in floaty for v in df[c].tolist())
        if lossy:
            rec.violation('keys', '%s(n_jobs=%d, allow_missing=%r): key column(s) %s of the result are float64; '
                          'ids such as %r are not ids of any input row (input keys are uint64 on both sides '
                          'of 2**63)' % (api, call['n_jobs'], call['allow_missing'], floaty,
                                         [v for c in floaty for v in df[c].tolist()
                                          if isinstance(v, (float, np.floating)) and v >= 2 ** 53][:2]),
                          case=case, known_key=KNOWN_U64 if assembled else None)
            return 1
    view = oracle.TableView(call)
    stats = oracle.check_set_join(df, call, T.JOIN_MEASURE[api], rec, DECIDE, view=view, case=case)
    for k, v in stats.items():
        rec.count(k, v)
    return stats.get('scores_checked', 0) + 1


def run_shard(shard, rec):
    ssj = env.load()
    monitors.import_repo_modules()
    reach = monitors.Reach()
    reach.start()
    kind = shard['kind']
    views = {}
    if kind == 'w3':
        for i in range(shard['n']):
            case = {'gen': 'w3', 'seed': shard['seed'] * 100000 + i}
            st = run_case(case, rec, ssj)
            call = materialise(case)
            rec.case(sig=('w3', case['seed']), nontrivial=bool(st and st.get('scores_checked')))
            rec.add('api', call['api'])
            rec.add('projection', (call['l_out_attrs'] is None, call['r_out_attrs'] is None,
                                   len(call['l_out_attrs'] or []), len(call['r_out_attrs'] or []),
                                   call['out_sim_score']))
            rec.add('n_jobs', call['n_jobs'])
            if i == 0:
                rec.sample({'workload': 'W3', 'api': call['api'], 'threshold': call['threshold'],
                            'comp_op': call['comp_op'], 'l_out_attrs': call['l_out_attrs'],
                            'r_out_attrs': call['r_out_attrs'], 'n_jobs': call['n_jobs'],
                            'left_values': T.column(call['ltable'], 'lattr')[:5]}, limit=1)
    elif kind == 'seq':
        for i in range(shard['n']):
            sd = shard['seed'] * 100000 + i
            run_case({'gen': 'seq', 'seed': sd}, rec, ssj)
            rec.case(sig=('seq', sd), nontrivial=True)
        rec.sample({'workload': 'SEQ', 'note': 'joins in one process sharing a re-configured tokenizer'},
                   limit=1)
    elif kind == 'nm':
        for (m, t) in shard['combos']:
            for op in ('>=', '>', '='):
                case = {'gen': 'nm', 'measure': m, 'threshold': t, 'N': shard['N'], 'comp_op': op}
                st = run_case(case, rec, ssj)
                rec.case(sig=('nm', m, t, op, shard['N']),
                         nontrivial=bool(st and st.get('scores_checked')))
        rec.sample({'workload': 'NM', 'measure': m, 'threshold': t, 'N': shard['N'],
                    'note': 'per (a,b): one exactly qualifying pair and one pair one token short'},
                   limit=1)
    elif kind == 'idkey':
        # the result of an earlier join fed into the next one, keyed by its own '_id' column, with an
        # empty prefix: the prefixed key would be labelled '_id' like the library's own id column.  The
        # pinned library refuses (ValueError from DataFrame.insert); refusing is fine, answering with
        # other keys is not.
        for i in range(shard['n']):
            rng = random.Random(shard['seed'] * 100000 + i)
            case = {'gen': 'idkey', 'seed': shard['seed'] * 100000 + i}
            words = ['a', 'b', 'c', 'd', 'e']
            n1, n2 = rng.randint(3, 7), rng.randint(3, 7)
            L = T.table_spec(['_id', 's'], [[k, ' '.join(rng.sample(words, rng.randint(1, 3)))]
                                            for k in rng.sample(range(5, 40), n1)], dtypes={'s': 'object'})
            R = T.table_spec(['rid', 's'], [[k, ' '.join(rng.sample(words, rng.randint(1, 3)))]
                                            for k in rng.sample(range(100, 140), n2)], dtypes={'s': 'object'})
            api = rng.choice(['jaccard_join', 'overlap_coefficient_join', 'overlap_join', 'cosine_join'])
            call = {'api': api, 'ltable': L, 'rtable': R, 'l_key': '_id', 'r_key': 'rid', 'l_attr': 's', 'r_attr': 's',
                    'tok': {'kind': 'ws', 'return_set': True}, 'threshold': 1 if api == 'overlap_join' else 0.4,
                    'l_out_prefix': '', 'r_out_prefix': 'r_', 'n_jobs': rng.choice([1, 2]), 'warm': None,
                    'positional': False}
            try:
                df = T.exec_call(ssj, call)
            except Exception:
                rec.count('label_collision_refused(not judged)')
                rec.case(sig=('idkey', case['seed']), nontrivial=False)
                continue
            rec.count('label_collision_answered')
            lk = set(L['data']['_id'])
            cols = list(df.columns)
            pos = [k for k, c in enumerate(cols) if c == '_id']
            keycol = pos[1] if len(pos) > 1 else None
            got = df.iloc[:, keycol].tolist() if keycol is not None else None
            if got is None or any(v not in lk for v in got):
                rec.violation('keys', "%s with l_key_attr='_id' and l_out_prefix='': the call was answered, but the "
                              'left keys of the result (%r) are not keys of the left table (%r); columns %r'
                              % (api, (got or df.iloc[:, 0].tolist())[:5], sorted(lk)[:5], cols), case=case)
            rec.case(sig=('idkey', case['seed']), nontrivial=True)
    elif kind == 'u64':
        for i in range(shard['n']):
            case = {'gen': 'u64', 'seed': shard['seed'] * 100000 + i}
            st = u64_case(case, rec, ssj)
            rec.case(sig=('u64', case['seed']), nontrivial=st > 0)
        rec.sample({'workload': 'U64', 'note': 'unsigned 64-bit keys at and beyond 2**63 (hash ids), n_jobs 1/2/3, '
                    'allow_missing on/off'}, limit=1)
    elif kind == 'unbalanced':
        for i in range(shard['n']):
            case = {'gen': 'unbalanced', 'seed': shard['seed'] * 100000 + i,
                    'api': ('jaccard_join', 'cosine_join', 'dice_join')[i % 3]}
            st = run_case(case, rec, ssj)
            rec.case(sig=('unbalanced', case['seed']), nontrivial=bool(st and st.get('scores_checked')))
            rec.count('unbalanced_size_cases')
        rec.sample({'workload': 'UNBALANCED', 'note': 'records of 3-5 tokens against records of 50-90 tokens '
                    'at thresholds 0.01-0.24 (size ratio beyond 16)'}, limit=1)
    elif kind == 'ambig':
        for i in range(shard['n']):
            case = {'gen': 'ambig', 'seed': shard['seed'] * 100000 + i}
            st = run_case(case, rec, ssj)
            rec.case(sig=('ambig', case['seed']), nontrivial=bool(st and st.get('scores_checked')))
            rec.count('ambiguous_token_set_cases')
        rec.sample({'workload': 'AMBIG', 'note': 'comma tokenizer, tokens containing blanks: different token '
                    'sets that coincide once joined / sorted / stripped; thresholds 1.0 and 0.9999'}, limit=1)
    elif kind == 'w5':
        rng = random.Random(shard['seed'])
        for m in c01.MEASURES4:
            ths = gen.near_score_thresholds(m, shard['N'], rng, shard['n'])
            for i, t in enumerate(ths):
                case = {'gen': 'w5', 'N': shard['N'], 'measure': m, 'threshold': t,
                        'comp_op': ('>=', '>', '>=', '=')[i % 4], 'out_sim_score': i % 3 != 0,
                        'n_jobs': 1 if i % 5 else 2}
                st = run_case(case, rec, ssj, views)
                rec.case(sig=('w5', m, t, case['comp_op'], case['out_sim_score']),
                         nontrivial=bool(st and st.get('output_rows')))
                rec.count('w5_cases')
        rec.sample({'workload': 'W5', 'N': shard['N'], 'note': 'every (a,b,o) up to N with the shared tokens '
                    'rare (inside both prefixes); thresholds at / a hair above / below attained scores; '
                    'a third of the calls without the score column'}, limit=1)
    elif kind == 'large':
        for x, n in enumerate(shard['sizes']):
            for y, (m, t) in enumerate([('JACCARD', 0.8), ('JACCARD', 0.6), ('COSINE', 0.85), ('DICE', 0.9),
                                        ('OVERLAP_COEFFICIENT', 0.9), ('OVERLAP', 3)]):
                if rec.tier == 'quick' and (x + y) % 2 and y > 1:
                    continue
                case = {'gen': 'large', 'n': n, 'measure': m, 'threshold': t, 'seed': 91 + 13 * x + y,
                        'n_jobs': 1 if (x + y) % 3 else 2}
                st = run_case(case, rec, ssj)
                rec.case(sig=('large', n, m, t), nontrivial=bool(st and st.get('scores_checked')))
                rec.count('large_table_cases')
        rec.sample({'workload': 'LARGE', 'sizes': shard['sizes'], 'note': 'n-row tables of filler rows '
                    'with planted matching pairs and near misses (rows beyond 1000 / 2048)'}, limit=1)
    elif kind == 'w4':
        for i, (m, t, op) in enumerate(shard['combos']):
            case = {'gen': 'w4', 'measure': m, 'threshold': t, 'comp_op': op,
                    'seed': shard['seed'] * 100000 + i, 'n_jobs': 1 if i % 6 else 2}
            st = run_case(case, rec, ssj)
            rec.case(sig=('w4', m, t, op), nontrivial=bool(st and (st.get('scores_checked') or op == '>')))
            rec.count('w4_exact_score_thresholds')
        rec.sample({'workload': 'W4', 'note': 'thresholds that are the exact double-precision score of '
                    'pairs of sets with up to 64 tokens (rewrite-sensitive points first); with > the '
                    'boundary pairs must be absent, with >= and = present with that score',
                    'last_case': case}, limit=1)
    elif kind == 'w2':
        S = shard['S']
        ths = gen.small_fraction_thresholds(S)
        combos = [(m, t) for m in c01.MEASURES3 for t in ths][shard['part']::shard['parts']]
        for (m, t) in combos:
            for op in ('>=', '>', '='):
                case = {'gen': 'w2', 'S': S, 'measure': m, 'threshold': t, 'comp_op': op}
                st = run_case(case, rec, ssj, views)
                rec.case(sig=('w2', S, m, t, op), nontrivial=bool(st and st.get('scores_checked')))
        rec.sample({'workload': 'W2', 'S': S, 'thresholds': len(ths)}, limit=1)
    reach.stop()
    for k, v in reach.anchors(c01.ANCHORS).items():
        rec.reach[k] = v


def finalize(agg, tier):
    c = agg['counters']
    if c.get('scores_checked', 0) == 0:
        agg['inconclusive'].append('no output row had its score checked')


def coverage_extra(agg, tier):
    c = agg['counters']
    return {'output_rows_checked': c.get('output_rows', 0),
            'scores_checked': c.get('scores_checked', 0),
            'rows_at_threshold': c.get('rows_at_threshold', 0)}
