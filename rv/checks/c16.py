"""C16 -- numeric-to-string conversion keeps missing values missing and integers integral.

Deciding oracle (boundary): a reference conversion written from the property statement is compared
with series_to_str / dataframe_column_to_str for every (column kind, NaN pattern, inplace,
return_col) combination; the input is snapshotted to decide "left unmodified" / "converted in
place"."""
import random

import numpy as np
import pandas as pd

from rv import env, gen, model, monitors
from rv import tables as T

PROPERTY = 'C16'
LEVEL = 'exploration'
RULE = ('cases = (entry point in {series_to_str, dataframe_column_to_str}) x column kind in {int, '
        'integral float, fractional float, mixed float, object strings, pandas str} x NaN pattern in '
        '{none, some, all, empty column} x (inplace, return_col) incl. the rejected combination, on '
        'seeded values (negative, large, zero, 1e16, 0.1+0.2, -0.0). Non-trivial = a column with at '
        'least one present value; distinct = (entry, kind, pattern, flags, seed).')
ASSUMPTIONS = ['str() of Python ints / floats is the reference string form of a number']
SHARD_TIMEOUT = {'quick': 300, 'thorough': 1800}

KINDS = ['int', 'float_integral', 'float_fractional', 'float_mixed', 'object_str', 'str', 'int32',
         'float32_mixed', 'float32_integral', 'uint', 'float_mixed_be']
INT_KINDS = ('int', 'int32', 'uint')
PATTERNS = ['none', 'some', 'all', 'empty']

ANCHORS = {
    'conv.int': ('py_stringsimjoin/utils/converter.py', r'col_str = series.astype\(str\)'),
    'conv.float_int': ('py_stringsimjoin/utils/converter.py', r'str\(int\(val\)\)'),
    'conv.float': ('py_stringsimjoin/utils/converter.py', r'pd.isnull\(val\) else str\(val\)\)'),
    'conv.all_nan': ('py_stringsimjoin/utils/converter.py', r'if len\(col_non_nan_values\) == 0'),
    'conv.object': ('py_stringsimjoin/utils/converter.py', r'return series.copy\(\)'),
}


def plan(tier, seed):
    reps = 40 if tier == 'quick' else 400
    combos = [(e, k, p) for e in ('series', 'frame') for k in KINDS for p in PATTERNS]
    shards = [{'name': 'cv_%d' % i, 'kind': 'cv', 'combos': combos[i::6], 'reps': reps,
               'seed': seed * 1000 + 280 + i} for i in range(6)]
    # the same workload with pandas in its legacy string mode (pd.options.future.infer_string = False,
    # the documented opt-out of the new str dtype), where str(...) conversions go through object arrays
    shards.append({'name': 'cv_legacy', 'kind': 'cv', 'combos': combos[1::3], 'reps': max(4, reps // 4),
                   'seed': seed * 1000 + 287, 'legacy_str': True})
    return shards


INTS = [0, 0, 1, -1, 7, 42, -300, 10 ** 9, 2 ** 40, -2 ** 31, 2 ** 63 - 1, -2 ** 63]
FRACS = [0.5, -1.25, 3.14159, 0.1 + 0.2, 1e-5, 2.5e10 + 0.5, -0.75, 1 / 3.0, float('inf'), 1e-300, 123456789.125]
INTEGRAL_FLOATS = [0.0, 1.0, -2.0, 100.0, 1e15, -4096.0, 3.0, 0.0, 1e16, 2.0 ** 63, -2.0 ** 63, 1e20, -1e19,
                   1e300, 2.0 ** 53 + 2, -0.0]


NUMERIC_KINDS = ('int', 'int32', 'uint', 'float_mixed_be', 'float_integral', 'float_fractional', 'float_mixed',
                 'float32_mixed', 'float32_integral')


def make_values(rng, kind, pattern):
    n = 0 if pattern == 'empty' else rng.randint(1, 8)
    if kind == 'int':
        vals = [rng.choice(INTS) for _ in range(n)]
    elif kind == 'int32':
        vals = [rng.choice([0, 1, -1, 7, 42, -300, 10 ** 9, -2 ** 31, 2 ** 31 - 1]) for _ in range(n)]
    elif kind == 'uint':          # unsigned columns (uint8 .. uint64)
        vals = [rng.choice([0, 1, 7, 42, 200, 255]) for _ in range(n)]
    elif kind == 'float_mixed_be':   # non-native byte order, as FITS / netCDF readers or np.fromfile produce
        vals = [rng.choice(FRACS[:4] + INTEGRAL_FLOATS[:6]) for _ in range(n)]
        if n:
            vals[rng.randrange(n)] = rng.choice(FRACS[:4])
    elif kind == 'float32_mixed':
        vals = [float(np.float32(rng.choice([0.5, -1.25, 0.1, 3.0, 1e10, 1 / 3.0, -0.0, 7.0]))) for _ in range(n)]
        if n:
            vals[rng.randrange(n)] = float(np.float32(0.1))
    elif kind == 'float32_integral':
        vals = [float(np.float32(rng.choice([0.0, 1.0, -2.0, 100.0, 16777216.0, -4096.0]))) for _ in range(n)]
    elif kind == 'float_integral':
        vals = [rng.choice(INTEGRAL_FLOATS) for _ in range(n)]
    elif kind == 'float_fractional':
        vals = [rng.choice(FRACS) for _ in range(n)]
    elif kind == 'float_mixed':
        vals = [rng.choice(FRACS + INTEGRAL_FLOATS) for _ in range(n)]
        if n:
            vals[rng.randrange(n)] = rng.choice(FRACS)
        if n >= 2 and rng.random() < 0.12:
            # every value integral or within 1e-9 of a whole number: NOT an integral column
            vals = [rng.choice([2.0, 5.0, 100.0, 4.35 * 100, (0.1 + 0.2) * 10, 1.1 * 3 * 10, 0.57 * 100, -7.0])
                    for _ in range(n)]
            vals[rng.randrange(n)] = rng.choice([4.35 * 100, (0.1 + 0.2) * 10, 0.57 * 100])
        elif n >= 2 and rng.random() < 0.15:
            # an infinite value among integral ones: the column is NOT integral as a whole
            vals = [rng.choice([1.0, 2.0, -3.0, 100.0, 0.0]) for _ in range(n)]
            vals[rng.randrange(n)] = rng.choice([float('inf'), float('-inf')])
        elif n >= 3 and rng.random() < 0.3:
            # both zeros (equal by value, different strings) next to a fractional value
            i, j, k = rng.sample(range(n), 3)
            vals[i], vals[j], vals[k] = rng.choice([(0.0, -0.0), (-0.0, 0.0)]) + (rng.choice(FRACS),)
    else:
        vals = [rng.choice(['a b', '12', '', 'x', 'nan', '3.0']) for _ in range(n)]
    if kind in INT_KINDS:
        return vals            # integer columns cannot hold NaN
    if pattern == 'some' and n:
        for i in rng.sample(range(n), rng.randint(1, max(1, n // 2))):
            vals[i] = gen.NAN if kind.startswith('float') or rng.random() < 0.5 else None
    elif pattern == 'all':
        vals = [gen.NAN if kind.startswith('float') or rng.random() < 0.5 else None for _ in vals]
    return vals


def make_index(n, style):
    if style == 'dup':
        return [i % 2 for i in range(n)]
    if style == 'const':
        return [5] * n
    if style == 'str':
        return ['r%d' % (n - i) for i in range(n)]
    return None


def make_series(kind, vals, index=None):
    if kind == 'int':
        return pd.Series(vals, dtype='int64', index=index)
    if kind == 'int32':
        return pd.Series(vals, dtype='int32', index=index)
    if kind == 'uint':
        return pd.Series(np.array(vals, dtype=('uint8', 'uint16', 'uint64')[len(vals) % 3]), index=index)
    if kind == 'float_mixed_be':
        return pd.Series(np.array(vals, dtype='>f8'), index=index)
    if kind.startswith('float32'):
        return pd.Series(vals, dtype='float32', index=index)
    if kind.startswith('float'):
        return pd.Series(vals, dtype='float64', index=index)
    if kind == 'str':
        return pd.Series(vals, dtype='str', index=index)
    return pd.Series(vals, dtype=object, index=index)


def reference(kind, vals):
    """Expected converted cells (None = missing) written from the property statement."""
    present = [v for v in vals if not model.is_missing(v)]
    if kind in ('object_str', 'str'):
        return [None if model.is_missing(v) else v for v in vals]
    if kind in INT_KINDS:
        return [str(int(v)) for v in vals]
    all_integral = all(float(v).is_integer() for v in present)
    out = []
    for v in vals:
        if model.is_missing(v):
            out.append(None)
        elif all_integral:
            out.append(str(int(v)))
        else:
            out.append(str(float(v)))
    return out


def cells(series):
    return [None if model.is_missing(v) else v for v in series.tolist()]


def same_cells(got, exp, kind):
    if got == exp:
        return True
    if kind == 'float32_mixed' and len(got) == len(exp):
        # "plain str()" of a 32-bit float has two readings: of the stored value ('0.1') or of the value
        # widened to a Python float ('0.10000000149011612', what the pinned code yields); both pass
        for g, e in zip(got, exp):
            if g == e:
                continue
            if g is None or e is None or g != str(np.float32(float(e))):
                return False
        return True
    return False


def check_converted(rec, case, tag, got_series, exp, what):
    got = cells(got_series)
    rec.count('cells_compared', len(exp))
    if not same_cells(got, exp, case.get('kind')):
        rec.violation('conversion', tag + '%s holds %r, expected %r' % (what, got, exp), case=case)
        return False
    for v in got:
        if v is not None and not isinstance(v, str):
            rec.violation('conversion', tag + '%s holds the non-string value %r' % (what, v), case=case)
            return False
    return True


def run_case(case, rec, ssj=None):
    ssj = ssj or env.load()
    rng = random.Random(case['seed'])
    entry, kind, pattern = case['entry'], case['kind'], case['pattern']
    inplace, return_col = case['inplace'], case['return_col']
    vals = make_values(rng, kind, pattern)
    long_n = case.get('long')
    if long_n and vals and kind in NUMERIC_KINDS:
        # a column longer than 2**16 rows: a long run of one whole number, then the case's own values
        # (block-wise conversions decide "all values are whole numbers" per block, not per column)
        vals = [3.0 if kind.startswith('float') else 7] * (long_n - len(vals)) + vals
    exp = reference(kind, vals)
    index = make_index(len(vals), rng.choice(['range', 'range', 'dup', 'const', 'str']))
    present = sum(1 for v in vals if not model.is_missing(v))
    numeric = kind in NUMERIC_KINDS
    degenerate = numeric and present == 0          # the documented exception (empty / all-NaN numeric)
    tag = '%s(kind=%s, values=%r, index=%r, inplace=%r%s): ' % (
        'series_to_str' if entry == 'series' else 'dataframe_column_to_str', kind,
        vals if not long_n else '%d x %r followed by %r' % (long_n - 8, vals[0], vals[-8:]),
        index if not long_n else '%s (%d labels)' % (type(index).__name__, len(vals)), inplace,
        '' if entry == 'series' else ', return_col=%r' % return_col)
    rec.count('conversion_cases')
    if entry == 'series':
        s = make_series(kind, vals, index)
        before = T.snapshot_series(s)
        try:
            res = ssj.series_to_str(s, inplace)
        except Exception as e:
            rec.violation('raises', tag + 'raised %s: %s' % (type(e).__name__, str(e)[:160]), case=case,
                          known_key=known_f6(entry, kind, inplace, present, e))
            return present
        if inplace and not degenerate:
            if res is not True:
                rec.violation('return_value', tag + 'returned %r, expected True' % (res,), case=case)
            check_converted(rec, case, tag, s, exp, 'the series converted in place')
        else:
            if not isinstance(res, pd.Series):
                rec.violation('return_value', tag + 'returned %r, expected a Series' % (type(res).__name__,),
                              case=case)
                return present
            check_converted(rec, case, tag, res, exp, 'the returned series')
            if not inplace or degenerate:
                if T.snapshot_series(s) != before:
                    rec.violation('input_modified', tag + 'the input series was modified', case=case)
                # "a converted copy": the result is another object, and editing it leaves the input alone
                rec.count('copy_independence_checks')
                if res is s:
                    rec.violation('return_value', tag + 'returned the input object itself, not a copy',
                                  case=case)
                elif len(res):
                    try:
                        res.iloc[0] = 'edited'
                        res.name = 'renamed'
                    except Exception:
                        pass
                    if T.snapshot_series(s) != before:
                        rec.violation('input_modified', tag + 'editing the returned series changed the '
                                      'input series (the result aliases the input)', case=case)
            if degenerate and str(res.dtype) != 'object':
                rec.violation('return_value', tag + 'documented exception: expected an object-typed copy, '
                              'got dtype %s' % res.dtype, case=case)
        return present
    # dataframe entry point
    other = list(range(len(vals)))
    # column labels: strings, strings that are no identifiers, integers (pd.DataFrame(rows)), floats, booleans
    K, CC, Z = rng.choice([('k', 'c', 'z')] * 6 + [(0, 1, 2), (2, 0, 1), ('a b', 'c-1', '2x'), ('k', '', 'z'),
                                                   (1.5, 2.5, 'z'), (True, False, 'z')])
    rec.add('column_label_types', type(CC).__name__)
    df = pd.DataFrame({K: other, CC: make_series(kind, vals).array, Z: ['z'] * len(vals)}, index=index)
    before = T.snapshot_df(df)
    tag = tag[:-2] + ', column label %r): ' % (CC,) if CC != 'c' else tag
    try:
        if rng.random() < 0.3:       # the flags in their published positions
            rec.count('positional_flag_calls')
            res = ssj.dataframe_column_to_str(df, CC, inplace, return_col)
        else:
            res = ssj.dataframe_column_to_str(df, CC, inplace=inplace, return_col=return_col)
    except AssertionError as e:
        if inplace and return_col:
            rec.count('rejected_flag_combination')
            if T.snapshot_df(df) != before:
                rec.violation('input_modified', tag + 'rejected call modified the frame', case=case)
            return present
        rec.violation('raises', tag + 'raised AssertionError: %s' % (str(e)[:160],), case=case)
        return present
    except Exception as e:
        rec.violation('raises', tag + 'raised %s: %s' % (type(e).__name__, str(e)[:160]), case=case,
                      known_key=known_f6('frame', kind, inplace, present, e))
        return present
    if inplace and return_col:
        rec.violation('not_rejected', tag + 'inplace together with return_col was accepted', case=case)
        return present
    if inplace:
        if res is not True:
            rec.violation('return_value', tag + 'returned %r, expected True' % (res,), case=case)
        check_converted(rec, case, tag, df[CC], exp, 'the column converted in place')
        if cells(df[K]) != other or list(df.columns) != [K, CC, Z]:
            rec.violation('input_modified', tag + 'other columns of the frame changed', case=case)
    elif return_col:
        if not isinstance(res, pd.Series):
            rec.violation('return_value', tag + 'returned %s, expected a Series' % type(res).__name__, case=case)
            return present
        check_converted(rec, case, tag, res, exp, 'the returned column')
        if T.snapshot_df(df) != before:
            rec.violation('input_modified', tag + 'the input frame was modified', case=case)
        rec.count('copy_independence_checks')
        if len(res):
            try:
                res.iloc[0] = 'edited'
            except Exception:
                pass
            if T.snapshot_df(df) != before:
                rec.violation('input_modified', tag + 'editing the returned column changed the input frame',
                              case=case)
    else:
        if not isinstance(res, pd.DataFrame):
            rec.violation('return_value', tag + 'returned %s, expected a DataFrame' % type(res).__name__, case=case)
            return present
        if res is df:
            rec.violation('return_value', tag + 'returned the input object itself, not a copy', case=case)
        check_converted(rec, case, tag, res[CC], exp, 'column c of the returned frame')
        if list(res.columns) != [K, CC, Z] or cells(res[K]) != other:
            rec.violation('conversion', tag + 'other columns of the returned frame differ', case=case)
        if T.snapshot_df(df) != before:
            rec.violation('input_modified', tag + 'the input frame was modified', case=case)
        rec.count('copy_independence_checks')
        if len(res):
            try:
                res.iloc[0, 1] = 'edited'
                res.iloc[0, 2] = 'edited'
            except Exception:
                pass
            if T.snapshot_df(df) != before:
                rec.violation('input_modified', tag + 'editing the returned frame changed the input frame',
                              case=case)
    return present


def known_f6(entry, kind, inplace, present, exc):
    """Mechanism classifier for the open finding `series-inplace-numeric-pandas3` (see
    KNOWN_FINDINGS.txt): series_to_str(<numeric Series with a present value>, inplace=True) cannot
    change the dtype of the caller's Series object under pandas >= 3 and raises TypeError from
    Series.update."""
    if entry == 'series' and inplace and kind in ('int', 'int32', 'uint', 'float_mixed_be', 'float_integral', 'float_fractional',
                                                  'float_mixed', 'float32_mixed', 'float32_integral') \
            and present > 0 and isinstance(exc, TypeError) and 'Invalid value' in str(exc):
        return 'series-inplace-numeric-pandas3'
    return None


def run_shard(shard, rec):
    if shard.get('legacy_str'):
        pd.set_option('future.infer_string', False)
    ssj = env.load()
    monitors.import_repo_modules()
    reach = monitors.Reach()
    reach.start()
    n = 0
    for (entry, kind, pattern) in shard['combos']:
        flagsets = [(False, False), (True, False)] if entry == 'series' else \
            [(False, False), (True, False), (False, True), (True, True)]
        for (inplace, return_col) in flagsets:
            for r in range(shard['reps']):
                case = {'gen': 'cv', 'entry': entry, 'kind': kind, 'pattern': pattern,
                        'inplace': inplace, 'return_col': return_col,
                        'seed': shard['seed'] * 100000 + n}
                n += 1
                present = run_case(case, rec, ssj)
                rec.case(sig=('cv', entry, kind, pattern, inplace, return_col, case['seed']),
                         nontrivial=present > 0)
            rec.add('combination', (entry, kind, pattern, inplace, return_col))
    # columns longer than 2**16 rows (one per numeric kind x entry of this shard, not in place)
    seen = set()
    for (entry, kind, pattern) in shard['combos']:
        if kind not in NUMERIC_KINDS or pattern == 'empty' or (entry, kind) in seen:
            continue
        seen.add((entry, kind))
        case = {'gen': 'cv', 'entry': entry, 'kind': kind, 'pattern': pattern, 'inplace': False,
                'return_col': False, 'seed': shard['seed'] * 100000 + n, 'long': 65536 + 4464 + 8 * len(seen)}
        n += 1
        present = run_case(case, rec, ssj)
        rec.case(sig=('cv_long', entry, kind, pattern, case['seed']), nontrivial=present > 0)
        rec.count('columns_longer_than_65536_rows')
    rec.sample({'entry': entry, 'kind': kind, 'pattern': pattern,
                'values': make_values(random.Random(1), kind, pattern)}, limit=1)
    reach.stop()
    for k, v in reach.anchors(ANCHORS).items():
        rec.reach[k] = v


def finalize(agg, tier):
    c = agg['counters']
    if c.get('cells_compared', 0) == 0:
        agg['inconclusive'].append('no converted cell was compared')


def coverage_extra(agg, tier):
    c = agg['counters']
    return {'combinations': len(agg['sets'].get('combination', ())),
            'cells_compared': c.get('cells_compared', 0),
            'rejected_flag_combination': c.get('rejected_flag_combination', 0)}
