"""C01 -- set-similarity joins return every qualifying pair.

Deciding oracle (boundary): every `required` pair of the reference model is a row of the output of
the real join run from the current tree.  Workloads: W1 worst-case tight tables, W2 all token
arrangements of small sets, W3 random hostile tables, plus a contract-steered sweep of the bound
formulas whose anomalies are turned into witness tables and judged at the boundary.
"""
import random

from rv import env, gen, model, monitors, oracle
from rv import tables as T

PROPERTY = 'C01'
LEVEL = 'exploration'
RULE = ('cases = real join executions on generated table pairs: W1 one tight table per (measure, '
        'threshold) holding every size pair (a,b)<=N with the least qualifying overlap and shared '
        'tokens last in the global order; W2 every interleaving of x-only/y-only/shared tokens for '
        'all sets <= S at every separating threshold; W3 seeded random hostile tables over all '
        'tokenizers/ops/flags/n_jobs; W4 thresholds that are the exact double-precision score of pairs '
        'of sets up to 64 tokens (rewrite-sensitive points first); HUGE records of 300 to 140 000 '
        'tokens (also with every common token beyond position 2**16); LARGE planted tables of 1100 to 9000 '
        'rows; AMBIG token sets that coincide once joined; F contract-steered witnesses for n<=1000. 8 % of the calls receive tables that were '
        'used in an earlier call (in place / derived copy). A case is '
        'non-trivial if the model finds at least one required pair in it; distinct = distinct '
        '(workload, measure, threshold, op, table digest).')
ASSUMPTIONS = ['py_stringmatching tokenizers are trusted (fresh instance = reference tokens)',
               'pandas/numpy are trusted', 'Cython variants are not built here; the documented '
               '__use_cython__=False switch selects the Python implementations under test']
SHARD_TIMEOUT = {'quick': 600, 'thorough': 3600}

MEASURES3 = ('JACCARD', 'COSINE', 'DICE')
MEASURES4 = MEASURES3 + ('OVERLAP_COEFFICIENT',)
DECIDE = {'complete'}

ANCHORS = {
    'position_filter.prune': ('py_stringsimjoin/filter/position_filter.py', r'candidate_overlap\[cand\] = -1'),
    'position_filter.count': ('py_stringsimjoin/filter/position_filter.py', r'candidate_overlap\[cand\] = current_overlap \+ 1'),
    'set_sim_join.verify': ('py_stringsimjoin/join/set_sim_join.py', r'sim_score = round\('),
    'set_sim_join.empty_branch': ('py_stringsimjoin/join/set_sim_join.py', r'for l_id in l_empty_records'),
    'position_index.post': ('py_stringsimjoin/index/position_index.py', r'append\(\(row_id, pos\)\)'),
    'overlap_filter.count': ('py_stringsimjoin/filter/overlap_filter.py', r'candidate_overlap\[cand\] = candidate_overlap.get'),
    'oc_join.verify': ('py_stringsimjoin/join/overlap_coefficient_join_py.py', r'sim_score = \(float\(overlap\)'),
}


def plan(tier, seed):
    shards = []
    pool = gen.threshold_pool('neighbours' if tier == 'quick' else 'dense')
    rng = random.Random(seed * 1000 + 17)
    extra = [gen.random_threshold(rng) for _ in range(40 if tier == 'quick' else 400)]
    ths = sorted(set(pool + extra))
    N = 40 if tier == 'quick' else 100
    combos = [(m, t) for m in MEASURES3 for t in ths]
    if tier == 'quick':
        # keep the quick tier inside ~60 s: all k/100 and k/20 + q<=12 fractions, sampled neighbours
        base = set(gen.threshold_pool('basic'))
        rest = [c for c in combos if c[1] not in base]
        rng.shuffle(rest)
        combos = [c for c in combos if c[1] in base] + rest[:150]
    rng.shuffle(combos)
    nsh = 10 if tier == 'quick' else 12
    for i in range(nsh):
        shards.append({'name': 'w1_%d' % i, 'kind': 'w1', 'N': N, 'combos': combos[i::nsh]})
    if tier == 'quick':
        shards.append({'name': 'w2_a', 'kind': 'w2', 'S': 4, 'part': 0, 'parts': 2})
        shards.append({'name': 'w2_b', 'kind': 'w2', 'S': 4, 'part': 1, 'parts': 2})
    else:
        # S=5: 3 571 arrangement groups x 209 separating thresholds x 3 measures x 3 operators;
        # S=6: 20 888 groups, a seeded sample of the 321 thresholds, '>=' only
        for i in range(4):
            shards.append({'name': 'w2_%d' % i, 'kind': 'w2', 'S': 5, 'part': i, 'parts': 4})
        shards.append({'name': 'w2_s6', 'kind': 'w2', 'S': 6, 'part': 0, 'parts': 1, 'sample': 36,
                       'seed': seed * 1000 + 9})
    n3 = 1500 if tier == 'quick' else 20000
    shards.append({'name': 'w3_a', 'kind': 'w3', 'n': n3, 'seed': seed * 1000 + 1})
    shards.append({'name': 'w3_b', 'kind': 'w3', 'n': n3, 'seed': seed * 1000 + 2})
    shards.append({'name': 'w3_O', 'kind': 'w3', 'n': 300 if tier == 'quick' else 3000, 'seed': seed * 1000 + 7,
                   'optimize': True})
    shards.append({'name': 'w2r', 'kind': 'w2r', 'n': 90 if tier == 'quick' else 1500,
                   'seed': seed * 1000 + 4})
    shards.append({'name': 'seq', 'kind': 'seq', 'n': 250 if tier == 'quick' else 3000,
                   'seed': seed * 1000 + 6})
    w4 = gen.exact_score_plan(random.Random(seed * 1000 + 44), MEASURES4,
                              100 if tier == 'quick' else 2500)
    nw4 = 3 if tier == 'quick' else 8
    for i in range(nw4):
        shards.append({'name': 'w4_%d' % i, 'kind': 'w4', 'combos': w4[i::nw4], 'seed': seed * 1000 + 50 + i})
    shards.append({'name': 'structured', 'kind': 'structured', 'Ms': [64, 256, 1024] if tier == 'quick' else
                   [32, 64, 128, 256, 512, 1024, 2048], 'n_variants': 60 if tier == 'quick' else 800,
                   'seed': seed * 1000 + 9})
    shards.append({'name': 'ambig', 'kind': 'ambig', 'n': 60 if tier == 'quick' else 800, 'seed': seed * 1000 + 8})
    shards.append({'name': 'huge', 'kind': 'huge', 'sizes': [300, 33000, 66000] if tier == 'quick' else
                   [260, 300, 32770, 40000, 65540, 70000, 140000],
                   'large': [1100, 2300] if tier == 'quick' else [600, 1100, 2300, 4100, 9000]})
    shards.append({'name': 'formula', 'kind': 'formula', 'nmax': 250 if tier == 'quick' else 1000,
                   'seed': seed * 1000 + 3})
    return shards


def _run_join(ssj, call):
    return T.exec_call(ssj, call)


def w1_case(measure, t, N, extra_overlap=0):
    return {'gen': 'w1', 'measure': measure, 'threshold': t, 'N': N, 'extra_overlap': extra_overlap}


def materialise(case):
    g = case['gen']
    if g == 'w1':
        sizes = [(a, b) for a in range(1, case['N'] + 1) for b in range(1, case['N'] + 1)]
        L, R, groups = gen.tight_tables(case['measure'], case['threshold'], sizes,
                                        op=case.get('comp_op', '>='),
                                        extra_overlap=case.get('extra_overlap', 0))
        return {'api': T.MEASURE_JOIN[case['measure']], 'ltable': L, 'rtable': R, 'l_key': 'id',
                'r_key': 'id', 'l_attr': 's', 'r_attr': 's', 'tok': {'kind': 'ws', 'return_set': True},
                'threshold': case['threshold'], 'comp_op': case.get('comp_op', '>='),
                'n_jobs': case.get('n_jobs', 1)}
    if g == 'w2r':
        rng = random.Random(case['seed'])
        L, R, meta = gen.random_arrangement_tables(rng, case['measure'], case['threshold'],
                                                   n_groups=case.get('groups', 150),
                                                   max_size=case.get('max_size', 16),
                                                   op=case.get('comp_op', '>='))
        return {'api': T.MEASURE_JOIN[case['measure']], 'ltable': L, 'rtable': R, 'l_key': 'id',
                'r_key': 'id', 'l_attr': 's', 'r_attr': 's', 'tok': {'kind': 'ws', 'return_set': True},
                'threshold': case['threshold'], 'comp_op': case.get('comp_op', '>='),
                'n_jobs': case.get('n_jobs', 1)}
    if g == 'pairs':      # explicit size triples (witnesses of contract anomalies)
        L, R, groups = gen.tight_tables(case['measure'], case['threshold'],
                                        [tuple(x) for x in case['sizes']])
        return {'api': T.MEASURE_JOIN[case['measure']], 'ltable': L, 'rtable': R, 'l_key': 'id',
                'r_key': 'id', 'l_attr': 's', 'r_attr': 's', 'tok': {'kind': 'ws', 'return_set': True},
                'threshold': case['threshold'], 'comp_op': '>=', 'n_jobs': 1}
    if g == 'w2':
        L, R, meta = gen.arrangement_tables(case['S'])
        return {'api': T.MEASURE_JOIN[case['measure']], 'ltable': L, 'rtable': R, 'l_key': 'id',
                'r_key': 'id', 'l_attr': 's', 'r_attr': 's', 'tok': {'kind': 'ws', 'return_set': True},
                'threshold': case['threshold'], 'comp_op': case.get('comp_op', '>='), 'n_jobs': 1}
    if g == 'large':
        L, R, planted = gen.large_planted_tables(random.Random(case['seed']), case['n'], 'ws')
        return {'api': T.MEASURE_JOIN[case['measure']], 'ltable': L, 'rtable': R, 'l_key': 'id',
                'r_key': 'id', 'l_attr': 's', 'r_attr': 's', 'tok': {'kind': 'ws', 'return_set': True},
                'threshold': case['threshold'], 'comp_op': case.get('comp_op', '>='),
                'n_jobs': case.get('n_jobs', 1)}
    if g == 'huge':
        if case.get('tail'):
            L, R = gen.huge_tail_tables(case['n'], case['tail'])
        else:
            L, R = gen.huge_tables(case['n'])
        return {'api': T.MEASURE_JOIN[case['measure']], 'ltable': L, 'rtable': R, 'l_key': 'id',
                'r_key': 'id', 'l_attr': 's', 'r_attr': 's', 'tok': {'kind': 'ws', 'return_set': True},
                'threshold': case['threshold'], 'comp_op': case.get('comp_op', '>='),
                'n_jobs': case.get('n_jobs', 1)}
    if g in ('modular', 'variants'):
        if g == 'modular':
            L, R = gen.modular_tables(case['M'], case.get('k', 3))
        else:
            L, R = gen.variant_tables(random.Random(case['seed']))
        return {'api': T.MEASURE_JOIN[case['measure']], 'ltable': L, 'rtable': R, 'l_key': 'id',
                'r_key': 'id', 'l_attr': 's', 'r_attr': 's', 'tok': {'kind': 'ws', 'return_set': True},
                'threshold': case['threshold'], 'comp_op': case.get('comp_op', '>='),
                'n_jobs': case.get('n_jobs', 1)}
    if g == 'ambig':
        rng = random.Random(case['seed'])
        L, R, tok = gen.ambiguous_tables(rng)
        api = rng.choice(['jaccard_join', 'cosine_join', 'dice_join', 'overlap_coefficient_join', 'overlap_join'])
        return {'api': api, 'ltable': L, 'rtable': R, 'l_key': 'lid', 'r_key': 'rid', 'l_attr': 'lattr',
                'r_attr': 'rattr', 'tok': tok, 'n_jobs': rng.choice([1, 2]),
                'threshold': rng.choice([1, 2, 3]) if api == 'overlap_join' else rng.choice([1.0, 1.0, 1, 0.9999, 0.5]),
                'comp_op': rng.choice(['>=', '>=', '=']), 'out_sim_score': rng.random() < 0.7}
    if g == 'w5':
        L, R, groups = gen.rare_shared_tables(case['N'])
        return {'api': T.MEASURE_JOIN[case['measure']], 'ltable': L, 'rtable': R, 'l_key': 'id',
                'r_key': 'id', 'l_attr': 's', 'r_attr': 's', 'tok': {'kind': 'ws', 'return_set': True},
                'threshold': case['threshold'], 'comp_op': case.get('comp_op', '>='),
                'out_sim_score': case.get('out_sim_score', True), 'n_jobs': case.get('n_jobs', 1)}
    if g == 'w4':
        rng = random.Random(case['seed'])
        L, R, groups = gen.exact_score_tables(case['measure'], case['threshold'], rng)
        return {'api': T.MEASURE_JOIN[case['measure']], 'ltable': L, 'rtable': R, 'l_key': 'id',
                'r_key': 'id', 'l_attr': 's', 'r_attr': 's', 'tok': {'kind': 'ws', 'return_set': True},
                'threshold': case['threshold'], 'comp_op': case.get('comp_op', '>='),
                'n_jobs': case.get('n_jobs', 1)}
    if g == 'w3':
        rng = random.Random(case['seed'])
        return gen.random_join_call(rng, collide=True)
    if g == 'explicit':
        return case['call']
    raise ValueError(g)


def run_case(case, rec, ssj=None, views=None, decide=None):
    ssj = ssj or env.load()
    if case['gen'] == 'seq':
        from rv.checks import seq

        def judge(df, call, rec_, step):
            st = oracle.check_set_join(df, call, T.JOIN_MEASURE[call['api']], rec_, decide or DECIDE,
                                       case=dict(case, step=step), tag='[sequence step %d] ' % step)
            for k, v in st.items():
                rec_.count(k, v)
        seq.run_sequence(ssj, random.Random(case['seed']), rec, judge)
        return {'required': 1}
    call = materialise(case)
    measure = T.JOIN_MEASURE[call['api']]
    key = None
    if views is not None and case['gen'] == 'w2':
        key = ('w2', case['S'])
    view = views.get(key) if key else None
    if view is None:
        view = oracle.TableView(call)
        if key:
            views[key] = view
    try:
        df = _run_join(ssj, call)
    except Exception as e:  # a valid call must not raise (C15 decides that; here: cannot judge)
        rec.count('calls_raised')
        rec.add('raised', '%s: %s' % (type(e).__name__, str(e)[:80]))
        return None
    view.call = call
    stats = oracle.check_set_join(df, call, measure, rec, decide or DECIDE, view=view, case=case)
    oracle_ids = None
    for k, v in stats.items():
        rec.count(k, v)
    return stats


def run_shard(shard, rec):
    ssj = env.load()
    monitors.import_repo_modules()
    reach = monitors.Reach()
    reach.start()
    contracts = monitors.Contracts()
    kind = shard['kind']
    if kind in ('w3', 'formula'):
        contracts.attach_filter_utils(overlap=(kind == 'w3'))
    views = {}
    if kind == 'w1':
        for ci, (m, t) in enumerate(shard['combos']):
            case = w1_case(m, t, shard['N'])
            if ci % 5 == 3 and t < 1.0:
                case['comp_op'] = '>'
            if ci % 7 == 5:
                case['n_jobs'] = 3
            st = run_case(case, rec, ssj)
            nontrivial = bool(st and st.get('required'))
            rec.case(sig=('w1', m, t, shard['N']), nontrivial=nontrivial)
            rec.add('measure_threshold', (m, t))
            if st:
                rec.sample({'workload': 'W1', 'measure': m, 'threshold': t, 'N': shard['N'],
                            'required_pairs': st.get('required'),
                            'example_rows': 'left: a tokens, right: b tokens, sharing the least '
                                            'qualifying overlap; shared tokens rank last'}, limit=1)
    elif kind == 'w2':
        S = shard['S']
        ths = gen.small_fraction_thresholds(S)
        combos = [(m, t) for m in MEASURES3 for t in ths]
        combos = combos[shard['part']::shard['parts']]
        if shard.get('sample'):
            random.Random(shard.get('seed', 0)).shuffle(combos)
            combos = combos[:shard['sample']]
        for ci, (m, t) in enumerate(combos):
            # the quick tier runs '=' (every pair exactly on the threshold must be returned) for every
            # second combination besides '>='
            quick_ops = ('>=', '=') if ci % 2 == 0 else ('>=',)
            for op in quick_ops if (rec.tier == 'quick' or shard.get('sample')) else ('>=', '>', '='):
                case = {'gen': 'w2', 'S': S, 'measure': m, 'threshold': t, 'comp_op': op}
                st = run_case(case, rec, ssj, views)
                rec.case(sig=('w2', S, m, t, op), nontrivial=bool(st and st.get('required')))
        L, R, meta = gen.arrangement_tables(S)
        rec.count('w2_arrangement_groups', len(meta) if shard['part'] == 0 else 0)
        rec.sample({'workload': 'W2', 'S': S, 'groups': len(meta), 'thresholds': len(ths),
                    'example_arrangement': meta[len(meta) // 2]}, limit=1)
    elif kind == 'w2r':
        rng = random.Random(shard['seed'])
        ths = gen.threshold_pool('neighbours')
        for i in range(shard['n']):
            m = rng.choice(MEASURES3)
            t = rng.choice(ths) if rng.random() < 0.8 else gen.random_threshold(rng)
            case = {'gen': 'w2r', 'seed': shard['seed'] * 100000 + i, 'measure': m, 'threshold': t,
                    'comp_op': rng.choice(['>=', '>=', '>']), 'n_jobs': rng.choice([1, 1, 2]),
                    'max_size': rng.choice([8, 16, 24])}
            if case['comp_op'] == '>' and t >= 1.0:
                case['comp_op'] = '>='
            st = run_case(case, rec, ssj)
            rec.case(sig=('w2r', case['seed']), nontrivial=bool(st and st.get('required')))
        rec.sample({'workload': 'W2r', 'note': 'random interleavings of x-only/y-only/shared tokens for '
                    'sets up to 24 tokens with the least qualifying overlap', 'last_case': case}, limit=1)
    elif kind == 'w3':
        for i in range(shard['n']):
            case = {'gen': 'w3', 'seed': shard['seed'] * 100000 + i}
            st = run_case(case, rec, ssj)
            call = materialise(case)
            rec.case(sig=('w3', case['seed']), nontrivial=bool(st and st.get('required')))
            rec.add('api', call['api'])
            rec.add('tokenizer', (call['tok']['kind'], call['tok'].get('q'),
                                  call['tok'].get('padding'), call['tok']['return_set']))
            rec.add('op', call['comp_op'])
            rec.add('n_jobs', call['n_jobs'])
            if i == 0:
                rec.sample({'workload': 'W3', 'api': call['api'], 'threshold': call['threshold'],
                            'comp_op': call['comp_op'], 'tok': call['tok'],
                            'left_values': T.column(call['ltable'], 'lattr')[:5],
                            'right_values': T.column(call['rtable'], 'rattr')[:5]}, limit=1)
    elif kind == 'huge':
        for x, n in enumerate(shard['sizes']):
            for y, (m, t) in enumerate([('JACCARD', 0.9), ('COSINE', 0.95), ('DICE', 0.5),
                                        ('OVERLAP_COEFFICIENT', 0.99), ('OVERLAP', n - 10), ('JACCARD', 0.3)]):
                case = {'gen': 'huge', 'n': n, 'measure': m, 'threshold': t, 'n_jobs': 1 + (x + y) % 2}
                st = run_case(case, rec, ssj)
                rec.case(sig=('huge', n, m, t), nontrivial=bool(st and st.get('required')))
                rec.count('huge_cases')
        # every common token beyond position 2**16 of the long record's ordered token list
        for (n_own, n_sh, m, t) in [(66000, 6000, 'JACCARD', 0.08), (70000, 9000, 'COSINE', 0.3),
                                    (66000, 6000, 'DICE', 0.15)][:1 if rec.tier == 'quick' else 3]:
            case = {'gen': 'huge', 'n': n_own, 'tail': n_sh, 'measure': m, 'threshold': t}
            st = run_case(case, rec, ssj)
            rec.case(sig=('huge_tail', n_own, n_sh, m, t), nontrivial=bool(st and st.get('required')))
            rec.count('huge_cases')
        # tables beyond 1000 / 2048 rows (planted pairs among filler rows)
        for x, n in enumerate(shard.get('large', [])):
            for y, (m, t) in enumerate([('JACCARD', 0.3), ('COSINE', 0.6), ('DICE', 0.45),
                                        ('OVERLAP_COEFFICIENT', 0.5), ('OVERLAP', 3)]):
                if rec.tier == 'quick' and (x + y) % 2:
                    continue
                case = {'gen': 'large', 'n': n, 'measure': m, 'threshold': t, 'seed': 77 + 13 * x + y,
                        'n_jobs': 1 if (x + y) % 3 else 2}
                st = run_case(case, rec, ssj)
                rec.case(sig=('large', n, m, t), nontrivial=bool(st and st.get('required')))
                rec.count('large_table_cases')
        rec.sample({'workload': 'HUGE', 'sizes': shard['sizes'], 'note': 'one pair of records with n '
                    'tokens sharing all but 3, beyond 2**8 / 2**15 / 2**16 tokens'}, limit=1)
    elif kind == 'structured':
        i = 0
        for M in shard['Ms']:
            for (m, t) in [('JACCARD', 1.0), ('COSINE', 0.8), ('DICE', 0.66), ('JACCARD', 0.5)]:
                if rec.tier == 'quick' and i % 2:
                    i += 1
                    continue
                case = {'gen': 'modular', 'M': M, 'k': 3 + (i % 2), 'measure': m, 'threshold': t, 'n_jobs': 1 + i % 2}
                st = run_case(case, rec, ssj)
                rec.case(sig=('modular', M, m, t), nontrivial=bool(st and st.get('required')))
                rec.count('modular_rank_cases')
                i += 1
        for j in range(shard['n_variants']):
            case = {'gen': 'variants', 'seed': shard['seed'] * 100000 + j, 'measure': MEASURES3[j % 3],
                    'threshold': (0.8, 0.7, 0.6, 0.9)[j % 4], 'n_jobs': 1 + (j % 3 == 2)}
            st = run_case(case, rec, ssj)
            rec.case(sig=('variants', case['seed']), nontrivial=bool(st and st.get('required')))
            rec.count('variant_table_cases')
        rec.sample({'workload': 'STRUCTURED', 'note': 'records whose token ranks are congruent modulo M (M = '
                    '%r); adjacent variants sharing their rare leading tokens' % (shard['Ms'],)}, limit=1)
    elif kind == 'ambig':
        for i in range(shard['n']):
            case = {'gen': 'ambig', 'seed': shard['seed'] * 100000 + i}
            st = run_case(case, rec, ssj)
            rec.case(sig=('ambig', case['seed']), nontrivial=bool(st and st.get('required')))
            rec.count('ambiguous_token_set_cases')
    elif kind == 'w4':
        for i, (m, t, op) in enumerate(shard['combos']):
            case = {'gen': 'w4', 'measure': m, 'threshold': t, 'comp_op': op,
                    'seed': shard['seed'] * 100000 + i, 'n_jobs': 1 if i % 6 else 2}
            st = run_case(case, rec, ssj)
            rec.case(sig=('w4', m, t, op), nontrivial=bool(st and st.get('required')))
            rec.count('w4_exact_score_thresholds')
            if st and st.get('required'):
                rec.count('w4_required_pairs', st.get('required'))
        rec.sample({'workload': 'W4', 'note': 'thresholds that are the exact double-precision score of '
                    'pairs of sets with up to 64 tokens; the table holds those pairs and their '
                    'neighbours with one shared token fewer / more', 'last_case': case}, limit=1)
    elif kind == 'seq':
        from rv.checks import seq
        for i in range(shard['n']):
            sd = shard['seed'] * 100000 + i
            run_case({'gen': 'seq', 'seed': sd}, rec, ssj)
            rec.case(sig=('seq', sd), nontrivial=True)
        rec.sample({'workload': 'SEQ', 'note': 'joins in one process sharing a tokenizer object that is '
                    're-configured through set_qval/set_padding/set_delim_set between calls'}, limit=1)
    elif kind == 'formula':
        formula_sweep(shard, rec, ssj, contracts)
    reach.stop()
    for k, v in reach.anchors(ANCHORS).items():
        rec.reach[k] = v
    cs = contracts.summary()
    for k, v in cs['evaluations'].items():
        rec.count('contract_evals.' + k, v)
    for k, v in cs['anomalies'].items():
        rec.count('contract_anomalies.' + k, v)
    for u in cs['unattached']:
        rec.add('contracts_unattached', u)
    contracts.detach()


def formula_sweep(shard, rec, ssj, contracts):
    """Drive the real bound functions under their contracts for n <= nmax over the threshold pool;
    every anomaly is turned into a witness table and judged by the boundary oracle."""
    from py_stringsimjoin.filter import filter_utils as fu
    import py_stringsimjoin.filter.position_filter as pf
    ths = gen.threshold_pool('basic' if rec.tier == 'quick' else 'neighbours')
    rng = random.Random(shard['seed'])
    ths = sorted(set(ths + [gen.random_threshold(rng) for _ in range(60)]))
    nmax = shard['nmax']
    for m in MEASURES3:
        for t in ths:
            for n in range(1, nmax + 1):
                pf.get_prefix_length(n, m, t, None)
                pf.get_size_lower_bound(n, m, t)
                pf.get_size_upper_bound(n, m, t)
    rec.count('formula_points', len(MEASURES3) * len(ths) * nmax)
    # anomalies -> witnesses
    wit = {}
    for a in contracts.anomalies:
        m, t, n = a['measure'], a['t'], a['n']
        if a['fn'] == 'get_prefix_length':
            sizes = [(n, a['o']), (a['o'], n)]
        elif a['fn'] in ('get_size_lower_bound', 'get_size_upper_bound'):
            sizes = [(n, a['partner']), (a['partner'], n)]
        else:
            continue
        wit.setdefault((m, t), set()).update(sizes)
    rec.count('formula_anomaly_witness_tables', len(wit))
    for (m, t), sizes in sorted(wit.items())[:400]:
        case = {'gen': 'pairs', 'measure': m, 'threshold': t, 'sizes': sorted(sizes)}
        st = run_case(case, rec, ssj)
        rec.case(sig=('formula', m, t, tuple(sorted(sizes))), nontrivial=True)
    # large-n random tight pairs judged at the boundary irrespective of anomalies
    for _ in range(60 if rec.tier == 'quick' else 600):
        m = rng.choice(MEASURES3)
        t = rng.choice(ths)
        sizes = []
        for _ in range(12):
            a = rng.randint(41, nmax)
            lo = contracts.o_min(m, t, a)
            if lo is None:
                continue
            hi = contracts.b_max(m, t, a)
            b = rng.choice([lo, hi, rng.randint(lo, hi), a])
            sizes.append((a, b))
            sizes.append((b, a))
        case = {'gen': 'pairs', 'measure': m, 'threshold': t, 'sizes': sizes}
        st = run_case(case, rec, ssj)
        rec.case(sig=('bigpairs', m, t, tuple(sizes)), nontrivial=bool(st and st.get('required')))


def finalize(agg, tier):
    c = agg['counters']
    if c.get('required', 0) == 0:
        agg['inconclusive'].append('the completeness oracle saw no required pair at all')
    if agg['reach'] and agg['reach'].get('position_filter.prune', 1) == 0:
        agg['inconclusive'].append('the position-filter prune branch was never executed')


def coverage_extra(agg, tier):
    c = agg['counters']
    return {'required_pairs_checked': c.get('required', 0),
            'tight_required_pairs': c.get('required_tight', 0),
            'straddling_pairs_excluded': c.get('straddling', 0),
            'exhaustive_subspaces': ['W2: every arrangement of every (a,b,o) with a,b<=%d at every '
                                     'separating threshold' % (4 if tier == 'quick' else 5)]}
