"""C04 -- filters never dismiss a pair that satisfies the threshold.

Deciding oracle (boundary): every pair of present values that the reference model classifies as
`required` for the filter's measure/threshold (similarity >= threshold raw and rounded; overlap >=
size; edit distance <= k and a shared q-gram) is reported not-dropped by filter_pair, listed by
filter_tables and kept by filter_candset, for SizeFilter, PrefixFilter, PositionFilter, SuffixFilter
and OverlapFilter."""
import random

from rv import env, gen, model, monitors, oracle
from rv import tables as T
from rv.checks import c01, c03

PROPERTY = 'C04'
LEVEL = 'exploration'
RULE = ('cases = (filter, measure, threshold, table) driven through filter_tables, filter_pair and '
        'filter_candset of the real filters: TT tight tables (every size pair <= N with the least '
        'qualifying overlap; pair-level order always ranks shared tokens last, table-level order too '
        'by construction), OV overlap-size tables, ED exhaustive string universes and mutation '
        'neighbourhoods for EDIT_DISTANCE, AR every arrangement of small sets, HUGE records of 300 to '
        '140 000 tokens, RT random hostile '
        'tables. Non-trivial = the model finds at least one required pair; distinct = distinct '
        '(workload, filter, measure, threshold, api, table digest).')
ASSUMPTIONS = c01.ASSUMPTIONS + ['set-returning tokenizers for set measures, bag q-gram tokenizers '
                                 'for EDIT_DISTANCE (as the property states)']
SHARD_TIMEOUT = {'quick': 900, 'thorough': 5400}

SAFE_FILTERS = ('SizeFilter', 'PrefixFilter', 'PositionFilter', 'SuffixFilter')
RATIO3 = ('JACCARD', 'COSINE', 'DICE')

ANCHORS = {
    'size.filter_pair.window': ('py_stringsimjoin/filter/size_filter.py', r'if size_lower_bound <= r_num_tokens <= size_upper_bound'),
    'prefix.filter_pair.overlap': ('py_stringsimjoin/filter/prefix_filter.py', r'prefix_overlap = set\('),
    'position.filter_pair.prune': ('py_stringsimjoin/filter/position_filter.py', r'if \(current_overlap \+ overlap_upper_bound\) < overlap_threshold'),
    'position.find.prune': ('py_stringsimjoin/filter/position_filter.py', r'candidate_overlap\[cand\] = -1'),
    'suffix.estimate': ('py_stringsimjoin/filter/suffix_filter.py', r'hamming_dist = self._est_hamming_dist_lower_bound'),
    'suffix.partition': ('py_stringsimjoin/filter/suffix_filter.py', r'pos = self._binary_search'),
    'candset.mask': ('py_stringsimjoin/filter/filter.py', r'valid_rows.append\(not filter_object.filter_pair'),
    'overlap.filter_pair': ('py_stringsimjoin/filter/overlap_filter.py', r'num_overlap = overlap\(ltokens, rtokens\)'),
}


def plan(tier, seed):
    shards = []
    rng = random.Random(seed * 1000 + 41)
    ths = gen.threshold_pool('basic' if tier == 'quick' else 'neighbours')
    extra = [gen.random_threshold(rng) for _ in range(30 if tier == 'quick' else 300)]
    ths = sorted(set(ths + extra))
    combos = [(m, t) for m in RATIO3 for t in ths]
    rng.shuffle(combos)
    if tier == 'quick':
        base = set(k / 100.0 for k in range(1, 101))
        combos = [c for c in combos if c[1] in base][:150] + [c for c in combos if c[1] not in base][:60]
    nsh = 9
    N = 28 if tier == 'quick' else 60
    for i in range(nsh):
        shards.append({'name': 'tt_%d' % i, 'kind': 'tt', 'N': N, 'Nsuffix': 10 if tier == 'quick' else 16,
                       'combos': combos[i::nsh]})
    shards.append({'name': 'ov', 'kind': 'ov', 'N': 12 if tier == 'quick' else 24})
    if tier == 'quick':
        unis = [('ab', 5), ('abc', 3)]
        qs, ks = (1, 2, 3), (0, 1, 2, 3)
    else:
        unis = [('ab', 7), ('abc', 4), ('a#', 5)]
        qs, ks = (1, 2, 3), (0, 1, 2, 3, 4)
    cfgs = [{'alpha': a, 'maxlen': ml, 'q': q, 'padding': pad, 'ks': list(ks)}
            for (a, ml) in unis for q in qs for pad in (True, False)]
    for i in range(3):
        shards.append({'name': 'ed_%d' % i, 'kind': 'ed', 'configs': cfgs[i::3],
                       'nb': 300 if tier == 'quick' else 3000, 'seed': seed * 1000 + 44 + i})
    shards.append({'name': 'rq', 'kind': 'rq', 'maxlen': 5 if tier == 'quick' else 7,
                   'thresholds': [1.0, 0.5, 0.34] if tier == 'quick' else [1.0, 0.8, 0.67, 0.5, 0.34, 0.25]})
    shards.append({'name': 'ar', 'kind': 'ar', 'S': 4 if tier == 'quick' else 5})
    sizes = [300, 33000, 66000] if tier == 'quick' else [260, 300, 32770, 40000, 65540, 70000, 140000]
    shards.append({'name': 'huge', 'kind': 'huge', 'sizes': sizes})
    for i in range(2):
        shards.append({'name': 'rt_%d' % i, 'kind': 'rt', 'n': 500 if tier == 'quick' else 6000,
                       'seed': seed * 1000 + 48 + i})
    return shards


# ----------------------------------------------------------------------------- core

def required_pairs(view, measure, t):
    """{(i,j)} of present pairs that the filter must keep (set measures)."""
    out = set()
    for (i, j), o in view.overlaps().items():
        a, b = len(view.ltoks[i]), len(view.rtoks[j])
        if measure == 'OVERLAP':
            if o >= t:
                out.add((i, j))
        elif model.classify(measure, '>=', t, a, b, o) == model.REQUIRED:
            out.add((i, j))
    return out


def required_pairs_ed(ev, k):
    view = ev.view
    out = set()
    kk = int(k)
    for i, lt in enumerate(view.ltoks):
        if lt is None:
            continue
        lset = set(lt)
        ls = view.lvals[i]
        for j, rt in enumerate(view.rtoks):
            if rt is None or abs(len(ls) - len(view.rvals[j])) > kk:
                continue
            if lset.isdisjoint(rt):
                continue
            if ev.distance(i, j) <= k:
                out.add((i, j))
    return out


def fspec_tag(fspec):
    if fspec['kind'] == 'OverlapFilter':
        return 'OverlapFilter(size=%r,%s)' % (fspec.get('overlap_size', 1), fspec.get('comp_op', '>='))
    return '%s(%s,%r)' % (fspec['kind'], fspec['measure'], fspec['threshold'])


def check_filter(ssj, base, fspec, req, view, rec, case, apis=('tables', 'pair', 'candset'),
                 pair_cap=None, classify=None):
    """Drive one filter over one table pair through the three entry points and demand that every
    pair in `req` survives.  base = call skeleton (tables, keys, attrs, tok)."""
    tag = fspec_tag(fspec) + ' '
    stats = {'required': len(req)}
    tok = T.make_tokenizer(base['tok'])
    try:
        flt = T.make_filter(ssj, fspec, tok)
    except Exception as e:
        rec.count('filter_ctor_raised')
        rec.add('raised', '%s: %s' % (type(e).__name__, str(e)[:80]))
        return stats
    L = T.make_table(base['ltable'])
    R = T.make_table(base['rtable'])
    objs = {'tok': tok, 'filter': flt, 'ltable': L, 'rtable': R}
    if fspec['kind'] == 'OverlapFilter':
        # C06 specifies that OverlapFilter keeps a pair only if both STRINGS are non-empty; under a
        # padded q-gram tokenizer '' still has tokens, so for such pairs C04 and C06 contradict each
        # other -- neither check decides on them (DESIGN.md §8)
        req = set((i, j) for (i, j) in req if view.lvals[i] != '' and view.rvals[j] != '')

    def report(api, i, j):
        msg = ('%s%s dropped a qualifying pair (%r, %r): l=%r r=%r' % (
            tag, api, view.lkeys[i], view.rkeys[j], view.lvals[i], view.rvals[j]))[:700]
        kk = classify(api, fspec, base, view, i, j) if classify else None
        rec.violation('kept:' + api, msg, case=dict(case, fspec=fspec), known_key=kk,
                      witness={'l': view.lvals[i], 'r': view.rvals[j]})

    if 'tables' in apis:
        call = dict(base, api='filter_tables', filter=fspec)
        targs = objs
        if (len(view.lkeys) + len(repr(fspec))) % 2 == 0 and 'zz_x' not in base['ltable']['cols']:
            # request an output attribute that is missing in every other row: a row with a present
            # filter value must survive whatever its other columns hold
            def with_x(spec):
                n = T.spec_len(spec)
                sp = {'cols': list(spec['cols']) + ['zz_x'], 'index': spec.get('index'),
                      'data': dict(spec['data'], zz_x=[None if i % 2 else 'x%d' % i for i in range(n)]),
                      'dtypes': dict(spec.get('dtypes', {}), zz_x='object')}
                return sp
            call = dict(call, ltable=with_x(base['ltable']), rtable=with_x(base['rtable']),
                        l_out_attrs=['zz_x'], r_out_attrs=['zz_x'])
            targs = {'tok': tok, 'filter': flt}
        try:
            df = T.exec_call(ssj, call, targs)
            got = set((i, j) for (i, j, s, lk, rk) in oracle.result_pairs(df, call, view))
            rec.count('filter_tables_calls')
            rec.count('filter_tables_rows', len(df))
            oracle.check_ids(df, rec, case=case, tag=tag)
            for (i, j) in req:
                if (i, j) not in got:
                    report('filter_tables', i, j)
        except Exception as e:
            rec.count('calls_raised')
            rec.add('raised', '%s: %s' % (type(e).__name__, str(e)[:80]))
    pairs = sorted(req)
    if pair_cap and len(pairs) > pair_cap:
        pairs = pairs[:pair_cap]
    if 'pair' in apis:
        for (i, j) in pairs:
            rec.count('filter_pair_calls')
            try:
                dropped = flt.filter_pair(view.lvals[i], view.rvals[j])
            except Exception as e:
                rec.count('calls_raised')
                rec.add('raised', '%s: %s' % (type(e).__name__, str(e)[:80]))
                continue
            if dropped:
                report('filter_pair', i, j)
    if 'candset' in apis and pairs:
        lk, rk = base['l_key'], base['r_key']
        # interleave pairs the filter may drop (shifted partners) so that kept and dropped rows alternate
        n_l, n_r = len(view.lkeys), len(view.rkeys)
        extra = [(i, (j + 1) % n_r) for (i, j) in pairs[:200] if not view.rmiss[(j + 1) % n_r]]
        mixed = []
        for x, pq in enumerate(pairs):
            mixed.append(pq)
            if x < len(extra) and extra[x] not in req:
                mixed.append(extra[x])
        required_rows = [x for x, pq in enumerate(mixed) if pq in req]
        pairs_cs = mixed
        lkeys, rkeys = T.column(base['ltable'], lk), T.column(base['rtable'], rk)
        cs = T.table_spec(['_id', 'l_' + lk, 'r_' + rk],
                          [[n, lkeys[i], rkeys[j]] for n, (i, j) in enumerate(pairs_cs)])
        # candidate sets produced by filter_tables(n_jobs>1) / allow_missing=True carry repeated
        # index labels (pd.concat of per-job results): use such an index in part of the cases
        if all(isinstance(k, int) and not isinstance(k, bool) and k >= 0 for k in list(lkeys) + list(rkeys)):
            cs['dtypes'] = {'r_' + rk: 'uint64'}          # same ids, another integer dtype than the left key
        style = (len(pairs) + len(repr(fspec))) % 3
        if style == 1:
            cs['index'] = [n % 5 for n in range(len(pairs_cs))]
        elif style == 2:
            cs['index'] = ['c%d' % (n // 2) for n in range(len(pairs_cs))]
        call = dict(base, api='filter_candset', filter=fspec, candset=cs, c_l_key='l_' + lk,
                    c_r_key='r_' + rk, n_jobs=base.get('n_jobs', 1))
        try:
            out = T.exec_call(ssj, call, objs)
            rec.count('filter_candset_calls')
            kept = set(out['_id'].tolist())
            for n in required_rows:
                if n not in kept:
                    report('filter_candset', pairs_cs[n][0], pairs_cs[n][1])
        except Exception as e:
            rec.count('calls_raised')
            rec.add('raised', '%s: %s' % (type(e).__name__, str(e)[:80]))
    return stats


def base_call(L, R, tok, l_key='id', r_key='id', l_attr='s', r_attr='s', n_jobs=1):
    return {'ltable': L, 'rtable': R, 'l_key': l_key, 'r_key': r_key, 'l_attr': l_attr,
            'r_attr': r_attr, 'tok': tok, 'n_jobs': n_jobs}


# ----------------------------------------------------------------------------- cases

def run_case(case, rec, ssj=None, cache=None):
    ssj = ssj or env.load()
    cache = cache if cache is not None else {}
    g = case['gen']
    from rv.known import suffix_f7
    classify = suffix_f7.classify
    if g == 'tt':
        m, t, N = case['measure'], case['threshold'], case['N']
        # amin > 1: no short record on the left at all (every left record is longer than some probes)
        sizes = [(a, b) for a in range(case.get('amin', 1), N + 1) for b in range(1, N + 1)]
        L, R, groups = gen.tight_tables(m, t, sizes)
        base = base_call(L, R, {'kind': 'ws', 'return_set': True})
        view = oracle.TableView(dict(base))
        req = required_pairs(view, m, t)
        kinds = case.get('filters', SAFE_FILTERS)
        for kind in kinds:
            fspec = {'kind': kind, 'measure': m, 'threshold': t}
            apis = ('tables', 'pair', 'candset')
            if kind in ('SuffixFilter', 'SizeFilter'):
                apis = ('pair', 'candset')      # quadratic filter_tables output: small table below
            check_filter(ssj, base, fspec, req, view, rec, case, apis=apis, classify=classify)
        if True:
            Ns = case.get('Nsuffix', 10)
            sizes = [(a, b) for a in range(min(case.get('amin', 1), Ns), Ns + 1) for b in range(1, Ns + 1)]
            L, R, groups = gen.tight_tables(m, t, sizes)
            base2 = base_call(L, R, {'kind': 'ws', 'return_set': True})
            view2 = oracle.TableView(dict(base2))
            req2 = required_pairs(view2, m, t)
            for kind in ('SuffixFilter', 'SizeFilter'):
                if kind in kinds:
                    check_filter(ssj, base2, {'kind': kind, 'measure': m, 'threshold': t}, req2,
                                 view2, rec, case, apis=('tables',), classify=classify)
        return {'required': len(req)}
    if g == 'ov':
        N, k = case['N'], case['size']
        lrows, rrows = [], []
        gid = 0
        for a in range(k, N + 1):
            for b in range(k, N + 1):
                for o in (k, min(a, b)):
                    gname = 'g%d' % gid
                    sh = ['%ss%d' % (gname, i) for i in range(o)]
                    lrows.append([gid, ' '.join(sh + ['%sx%d' % (gname, i) for i in range(a - o)])])
                    rrows.append([gid, ' '.join(sh + ['%sy%d' % (gname, i) for i in range(b - o)])])
                    gid += 1
        L = T.table_spec(['id', 's'], lrows, dtypes={'s': 'object'})
        R = T.table_spec(['id', 's'], rrows, dtypes={'s': 'object'})
        base = base_call(L, R, {'kind': 'ws', 'return_set': True})
        view = oracle.TableView(dict(base))
        req = required_pairs(view, 'OVERLAP', k)
        for kind in SAFE_FILTERS:
            apis = ('tables', 'pair', 'candset') if kind != 'SuffixFilter' or N <= 12 else ('pair', 'candset')
            check_filter(ssj, base, {'kind': kind, 'measure': 'OVERLAP', 'threshold': k}, req, view,
                         rec, case, apis=apis, classify=classify)
        check_filter(ssj, base, {'kind': 'OverlapFilter', 'overlap_size': k, 'comp_op': '>='}, req,
                     view, rec, case)
        return {'required': len(req)}
    if g == 'ov_q':
        q, pad, k = case['q'], case['padding'], case['size']
        strs = sorted(set(s_ for s_ in c03.universe('ab', case.get('maxlen', 3)) + c03.universe('a ', 2)
                          if s_ != ''))      # includes whitespace-only values: tokens for a q-gram tokenizer
        L = T.table_spec(['id', 's'], [[i, s_] for i, s_ in enumerate(strs)], dtypes={'s': 'object'})
        R = T.table_spec(['id', 's'], [[i, s_] for i, s_ in enumerate(strs)], dtypes={'s': 'object'})
        tok = {'kind': 'qgram', 'q': q, 'padding': pad, 'return_set': True}
        base = base_call(L, R, tok)
        view = oracle.TableView(dict(base))
        req = required_pairs(view, 'OVERLAP', k)
        for kind in SAFE_FILTERS:
            check_filter(ssj, base, {'kind': kind, 'measure': 'OVERLAP', 'threshold': k}, req, view,
                         rec, case, classify=classify)
        check_filter(ssj, base, {'kind': 'OverlapFilter', 'overlap_size': k, 'comp_op': '>='}, req,
                     view, rec, case)
        return {'required': len(req)}
    if g == 'rq':
        # every string over a two-letter alphabet under set-mode q-gram tokenizers: values such as
        # 'aaa' (one distinct 2-gram) have far fewer tokens than their length suggests
        q, pad, m, t = case['q'], case['padding'], case['measure'], case['threshold']
        ckey = ('rq', q, pad, case.get('maxlen', 5))
        if ckey not in cache:
            strs = c03.universe('ab', case.get('maxlen', 5))
            L = T.table_spec(['id', 's'], [[i, s_] for i, s_ in enumerate(strs)], dtypes={'s': 'object'})
            R = T.table_spec(['id', 's'], [[i, s_] for i, s_ in enumerate(strs)], dtypes={'s': 'object'})
            base = base_call(L, R, {'kind': 'qgram', 'q': q, 'padding': pad, 'return_set': True})
            cache[ckey] = (base, oracle.TableView(dict(base)))
        base, view = cache[ckey]
        req = required_pairs(view, m, t)
        for kind in SAFE_FILTERS:
            apis = ('tables', 'pair', 'candset') if kind not in ('SuffixFilter',) else ('pair', 'candset')
            check_filter(ssj, base, {'kind': kind, 'measure': m, 'threshold': t}, req, view, rec, case,
                         apis=apis, pair_cap=1500, classify=classify)
        return {'required': len(req)}
    if g == 'ed_u':
        cfg, k = case['cfg'], case['k']
        strs = c03.universe(cfg['alpha'], cfg['maxlen'])
        L = T.table_spec(['id', 's'], [[i, s] for i, s in enumerate(strs)], dtypes={'s': 'object'})
        R = T.table_spec(['id', 's'], [[i, s] for i, s in enumerate(strs)], dtypes={'s': 'object'})
        tok = {'kind': 'qgram', 'q': cfg['q'], 'padding': cfg['padding'], 'return_set': False}
        base = base_call(L, R, tok)
        ckey = ('ed_u', cfg['alpha'], cfg['maxlen'], cfg['q'], cfg['padding'])
        ev = cache.get(ckey)
        if ev is None:
            ev = cache[ckey] = oracle.EditView(dict(base))
            ev.dist = cache.setdefault(('dist', cfg['alpha'], cfg['maxlen']), {})
        req = required_pairs_ed(ev, k)
        for kind in SAFE_FILTERS:
            apis = ('tables', 'pair', 'candset')
            if kind == 'SuffixFilter' and len(strs) > 70:
                apis = ('pair', 'candset')
            check_filter(ssj, base, {'kind': kind, 'measure': 'EDIT_DISTANCE', 'threshold': k}, req,
                         ev.view, rec, case, apis=apis, pair_cap=4000, classify=classify)
        return {'required': len(req)}
    if g == 'ed_nb':
        rng = random.Random(case['seed'])
        call = c03.nb_call(rng)
        call['tok']['return_set'] = False
        base = base_call(call['ltable'], call['rtable'], call['tok'], 'lid', 'rid', 'lattr', 'rattr',
                         n_jobs=call['n_jobs'])
        ev = oracle.EditView(dict(base))
        k = int(call['threshold'])
        req = required_pairs_ed(ev, k)
        kind = rng.choice(SAFE_FILTERS)
        kf = k + rng.choice([0, 0, 0.0, 0.5])        # distance <= k + 0.5 is distance <= k
        check_filter(ssj, base, {'kind': kind, 'measure': 'EDIT_DISTANCE', 'threshold': kf}, req,
                     ev.view, rec, case, classify=classify)
        return {'required': len(req)}
    if g == 'ar':
        S, m, t = case['S'], case['measure'], case['threshold']
        ckey = ('ar', S)
        if ckey not in cache:
            L, R, meta = gen.arrangement_tables(S)
            base = base_call(L, R, {'kind': 'ws', 'return_set': True})
            cache[ckey] = (base, oracle.TableView(dict(base)))
        base, view = cache[ckey]
        req = required_pairs(view, m, t)
        for kind in ('PrefixFilter', 'PositionFilter'):
            check_filter(ssj, base, {'kind': kind, 'measure': m, 'threshold': t}, req, view, rec, case,
                         apis=('tables',), classify=classify)
        return {'required': len(req)}
    if g == 'ar_suffix':
        S, m, t = case['S'], case['measure'], case['threshold']
        ckey = ('ar', S)
        if ckey not in cache:
            L, R, meta = gen.arrangement_tables(S)
            base = base_call(L, R, {'kind': 'ws', 'return_set': True})
            cache[ckey] = (base, oracle.TableView(dict(base)))
        base, view = cache[ckey]
        req = required_pairs(view, m, t)
        check_filter(ssj, base, {'kind': 'SuffixFilter', 'measure': m, 'threshold': t}, req, view, rec,
                     case, apis=('tables',), classify=classify)
        return {'required': len(req)}
    if g == 'huge':
        n, m, t = case['n'], case['measure'], case['threshold']
        L, R = gen.huge_tables(n)
        base = base_call(L, R, {'kind': 'ws', 'return_set': True}, n_jobs=case.get('n_jobs', 1))
        view = oracle.TableView(dict(base))
        req = required_pairs(view, m, t)
        for kind in SAFE_FILTERS:
            check_filter(ssj, base, {'kind': kind, 'measure': m, 'threshold': t}, req, view, rec, case,
                         classify=classify)
        if m == 'OVERLAP':
            check_filter(ssj, base, {'kind': 'OverlapFilter', 'overlap_size': t, 'comp_op': '>='}, req,
                         view, rec, case)
        return {'required': len(req)}
    if g == 'rt':
        rng = random.Random(case['seed'])
        tok = gen.random_tokenizer(rng, allow_bag=False)
        L, R, tok = gen.random_table_pair(rng, tok=tok, max_rows=10)
        n_jobs = rng.choice([1, 1, 2, 3])
        base = base_call(L, R, tok, 'lid', 'rid', 'lattr', 'rattr', n_jobs=n_jobs)
        view = oracle.TableView(dict(base))
        r = rng.random()
        if r < 0.2:
            k = rng.choice([1, 1, 2, 3, 1.0, 1.5, 2.5, 0.5])     # (float sizes: crashed before the repair of F12)
            fspec = {'kind': rng.choice(SAFE_FILTERS + ('OverlapFilter',)), 'measure': 'OVERLAP',
                     'threshold': k, 'overlap_size': k, 'comp_op': '>='}
            req = required_pairs(view, 'OVERLAP', k)
            if fspec['kind'] == 'OverlapFilter' and rng.random() < 0.5:
                # OverlapFilter takes an operator: the pairs whose overlap satisfies it must survive
                fspec['comp_op'] = rng.choice(['>', '='])
                fn_ = model.OPS[fspec['comp_op']]
                req = set((i, j) for (i, j), o in view.overlaps().items() if fn_(o, k))
        else:
            m = rng.choice(RATIO3)
            t = gen.random_threshold(rng)
            fspec = {'kind': rng.choice(SAFE_FILTERS), 'measure': m, 'threshold': t,
                     'measure_spelling': gen.spell(rng, m)}
            req = required_pairs(view, m, t)
        fspec['allow_empty'] = rng.random() < 0.6
        fspec['allow_missing'] = rng.random() < 0.3
        check_filter(ssj, base, fspec, req, view, rec, case, classify=classify)
        return {'required': len(req), 'fspec': fspec}
    raise ValueError(g)


def run_shard(shard, rec):
    ssj = env.load()
    monitors.import_repo_modules()
    reach = monitors.Reach()
    reach.start()
    contracts = monitors.Contracts()
    kind = shard['kind']
    if kind in ('rt', 'ed'):
        contracts.attach_filter_utils(overlap=False)
    cache = {}
    if kind == 'tt':
        for ci, (m, t) in enumerate(shard['combos']):
            case = {'gen': 'tt', 'measure': m, 'threshold': t, 'N': shard['N'],
                    'Nsuffix': shard['Nsuffix']}
            if ci % 3 == 1:
                case['amin'] = (3, 5, 8)[ci % 9 // 3]
            st = run_case(case, rec, ssj, cache)
            rec.count('required', st['required'])
            rec.case(sig=('tt', m, t, shard['N']), nontrivial=st['required'] > 0, n=4)
            rec.add('measure_threshold', (m, t))
        rec.sample({'workload': 'TT', 'measure': m, 'threshold': t, 'N': shard['N'],
                    'filters': list(SAFE_FILTERS), 'apis': ['filter_tables', 'filter_pair',
                                                            'filter_candset']}, limit=1)
    elif kind == 'ov':
        for size in (1, 2, 3, 4, 5):
            case = {'gen': 'ov', 'N': shard['N'], 'size': size}
            st = run_case(case, rec, ssj, cache)
            rec.count('required', st['required'])
            rec.case(sig=('ov', size, shard['N']), nontrivial=st['required'] > 0, n=5)
        # short strings under (padded) q-gram tokenizers: a string has MORE tokens than characters
        for q in (2, 3):
            for pad in (True, False):
                for size in (1, 2, 3, 4):
                    case = {'gen': 'ov_q', 'q': q, 'padding': pad, 'size': size, 'maxlen': 3}
                    st = run_case(case, rec, ssj, cache)
                    rec.count('required', st['required'])
                    rec.case(sig=('ov_q', q, pad, size), nontrivial=st['required'] > 0, n=5)
        rec.sample({'workload': 'OV', 'sizes': [1, 2, 3, 4, 5], 'N': shard['N']}, limit=1)
    elif kind == 'rq':
        for (q, pad) in ((2, False), (3, False), (2, True)):
            for m in RATIO3:
                for t in shard['thresholds']:
                    case = {'gen': 'rq', 'q': q, 'padding': pad, 'measure': m, 'threshold': t,
                            'maxlen': shard['maxlen']}
                    st = run_case(case, rec, ssj, cache)
                    rec.count('required', st['required'])
                    rec.case(sig=('rq', q, pad, m, t), nontrivial=st['required'] > 0, n=4)
        rec.sample({'workload': 'RQ', 'note': 'all strings over {a,b} up to the given length under set-mode '
                    'q-gram tokenizers, ratio measures', 'maxlen': shard['maxlen']}, limit=1)
    elif kind == 'ed':
        for cfg in shard['configs']:
            for k in cfg['ks']:
                case = {'gen': 'ed_u', 'cfg': cfg, 'k': k}
                st = run_case(case, rec, ssj, cache)
                rec.count('required', st['required'])
                rec.case(sig=('ed_u', cfg['alpha'], cfg['maxlen'], cfg['q'], cfg['padding'], k),
                         nontrivial=st['required'] > 0, n=4)
        for i in range(shard['nb']):
            case = {'gen': 'ed_nb', 'seed': shard['seed'] * 100000 + i}
            st = run_case(case, rec, ssj, cache)
            rec.count('required', st['required'])
            rec.case(sig=('ed_nb', case['seed']), nontrivial=st['required'] > 0)
        rec.sample({'workload': 'ED', 'configs': shard['configs'][:2]}, limit=1)
    elif kind == 'ar':
        S = shard['S']
        ths = gen.small_fraction_thresholds(S)
        for m in RATIO3:
            for t in ths:
                case = {'gen': 'ar', 'S': S, 'measure': m, 'threshold': t}
                st = run_case(case, rec, ssj, cache)
                rec.count('required', st['required'])
                rec.case(sig=('ar', S, m, t), nontrivial=st['required'] > 0, n=3)
        # the quadratic SuffixFilter over all arrangements of sets <= 3
        ths3 = gen.small_fraction_thresholds(3)
        for m in RATIO3:
            for t in ths3:
                case = {'gen': 'ar_suffix', 'S': 3, 'measure': m, 'threshold': t}
                st = run_case(case, rec, ssj, cache)
                rec.count('required', st['required'])
                rec.case(sig=('ar_suffix', 3, m, t), nontrivial=st['required'] > 0)
        rec.sample({'workload': 'AR', 'S': S, 'thresholds': len(ths)}, limit=1)
    elif kind == 'huge':
        for x, n in enumerate(shard['sizes']):
            for y, (m, t) in enumerate([('JACCARD', 0.9), ('COSINE', 0.95), ('DICE', 0.5), ('OVERLAP', n - 10),
                                        ('JACCARD', 0.3)]):
                if rec.tier == 'quick' and (x + y) % 2 and m != 'JACCARD':
                    continue
                case = {'gen': 'huge', 'n': n, 'measure': m, 'threshold': t, 'n_jobs': 1 + (x + y) % 2}
                st = run_case(case, rec, ssj, cache)
                rec.count('required', st['required'])
                rec.count('huge_cases')
                rec.case(sig=('huge', n, m, t), nontrivial=st['required'] > 0, n=4)
        rec.add('huge_sizes', tuple(shard['sizes']))
        rec.sample({'workload': 'HUGE', 'sizes': shard['sizes'], 'note': 'one pair of records with n '
                    'tokens sharing all but 3, beyond 2**8 / 2**15 / 2**16 tokens'}, limit=1)
    elif kind == 'rt':
        for i in range(shard['n']):
            case = {'gen': 'rt', 'seed': shard['seed'] * 100000 + i}
            st = run_case(case, rec, ssj, cache)
            rec.count('required', st['required'])
            rec.case(sig=('rt', case['seed']), nontrivial=st['required'] > 0)
            rec.add('filter_measure', (st['fspec']['kind'], st['fspec'].get('measure')))
            if i == 0:
                rec.sample({'workload': 'RT', 'fspec': st['fspec']}, limit=1)
    reach.stop()
    for k, v in reach.anchors(ANCHORS).items():
        rec.reach[k] = v
    cs = contracts.summary()
    for k, v in cs['evaluations'].items():
        rec.count('contract_evals.' + k, v)
    for k, v in cs['anomalies'].items():
        rec.count('contract_anomalies.' + k, v)
    contracts.detach()


def finalize(agg, tier):
    c = agg['counters']
    if c.get('required', 0) == 0:
        agg['inconclusive'].append('no required pair was driven through any filter')
    for k in ('filter_tables_calls', 'filter_pair_calls', 'filter_candset_calls'):
        if c.get(k, 0) == 0:
            agg['inconclusive'].append('%s == 0' % k)


def coverage_extra(agg, tier):
    c = agg['counters']
    return {'required_pairs_driven': c.get('required', 0),
            'filter_pair_calls': c.get('filter_pair_calls', 0),
            'filter_tables_calls': c.get('filter_tables_calls', 0),
            'filter_candset_calls': c.get('filter_candset_calls', 0)}
