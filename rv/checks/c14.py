"""C14 -- filters prune what their technique promises to prune.

O1 (exhaustive size characterisation): SizeFilter under JACCARD/COSINE/DICE/EDIT_DISTANCE decides on
the two token counts alone (same decisions for different tokens of the same counts); it keeps every
count pair that allows the threshold and drops every count pair whose best attainable similarity is
more than 1e-4 below the threshold (edit distance: counts differing by more than the threshold).
O2: PrefixFilter, PositionFilter, OverlapFilter never keep a pair without a common token unless
both values have no tokens.  O3: on the same tables and parameters (n_jobs=1)
PositionFilter.filter_tables ⊆ PrefixFilter.filter_tables and ⊆ SizeFilter.filter_tables."""
import random

from rv import env, gen, model, monitors, oracle
from rv import tables as T

PROPERTY = 'C14'
LEVEL = 'exploration'
RULE = ('O1: tables with one row per token count 1..N on each side x dense threshold grid x '
        '{JACCARD,COSINE,DICE} (and string lengths 0..N x k x q for EDIT_DISTANCE), through '
        'filter_tables and (sampled) filter_pair, twice with different tokens of the same counts; '
        'O2/O3: seeded random tables and value pairs over all tokenizers and measures. A case is one '
        '(measure, threshold) grid or one random table pair; non-trivial = at least one pair must be '
        'kept and one must be dropped (O1) / at least one pair without a common token (O2) / the '
        'position filter output is non-empty (O3).')
ASSUMPTIONS = ['py_stringmatching tokenizers are trusted']
SHARD_TIMEOUT = {'quick': 600, 'thorough': 3600}

RATIO3 = ('JACCARD', 'COSINE', 'DICE')

ANCHORS = {
    'size.find.window': ('py_stringsimjoin/filter/size_filter.py', r'for cand_size in xrange\(size_lower_bound, size_upper_bound \+ 1\)'),
    'size.pair.window': ('py_stringsimjoin/filter/size_filter.py', r'if size_lower_bound <= r_num_tokens <= size_upper_bound'),
    'position.size_window': ('py_stringsimjoin/filter/position_filter.py', r'if size_lower_bound <= cand_num_tokens <= size_upper_bound'),
    'prefix.find': ('py_stringsimjoin/filter/prefix_filter.py', r'candidates.update\(prefix_index.probe'),
}


def plan(tier, seed):
    N = 40 if tier == 'quick' else 100
    nth = 120 if tier == 'quick' else 400
    rng = random.Random(seed * 1000 + 240)
    ths = sorted(set([k / float(nth) for k in range(1, nth + 1)] +
                     [gen.random_threshold(rng) for _ in range(nth // 4)] +
                     gen.threshold_pool('neighbours')[:: (3 if tier == 'quick' else 1)]))
    shards = []
    nsh = 6
    for i in range(nsh):
        shards.append({'name': 'size_%d' % i, 'kind': 'size', 'N': N, 'ths': ths[i::nsh]})
    shards.append({'name': 'size_ed', 'kind': 'size_ed', 'N': 30 if tier == 'quick' else 60})
    n = 700 if tier == 'quick' else 8000
    for i in range(4):
        shards.append({'name': 'nocommon_%d' % i, 'kind': 'nocommon', 'n': n, 'seed': seed * 1000 + 241 + i})
    for i in range(3):
        shards.append({'name': 'contain_%d' % i, 'kind': 'contain', 'N': 40, 'n': 1500 if tier == 'quick' else 30000,
                       'seed': seed * 1000 + 251 + i})
    for i in range(4):
        shards.append({'name': 'subset_%d' % i, 'kind': 'subset', 'n': n // 2, 'seed': seed * 1000 + 246 + i})
    return shards


def best_sim(measure, a, b):
    o = min(a, b)
    return max(model.formula_scores(measure, a, b, o)) if not (a == b) else 1.0


def count_tables(N, variant):
    """one row per token count 1..N on both sides; variant picks the tokens (counts are the same)"""
    lrows, rrows = [[0, ''], [-1, '  ']], [[0, ''], [-1, ' ']]      # zero-token rows on both sides
    for a in range(1, N + 1):
        if variant == 0:
            lt = ['l%d_%d' % (a, i) for i in range(a)]
            rt = ['r%d_%d' % (a, i) for i in range(a)]
        else:
            lt = ['t%d' % i for i in range(a)]          # heavily overlapping tokens
            rt = ['t%d' % (i + a // 2) for i in range(a)]
        lrows.append([a, ' '.join(lt)])
        rrows.append([a, ' '.join(rt)])
    return (T.table_spec(['id', 's'], lrows, dtypes={'s': 'object'}),
            T.table_spec(['id', 's'], rrows, dtypes={'s': 'object'}))


def size_case(case, rec, ssj, tables_cache):
    m, t, N = case['measure'], case['threshold'], case['N']
    decisions = []
    must_keep = must_drop = 0
    # ONE filter object serves all three tables (same counts, different tokens / row order): the
    # decision may depend on the counts only, not on what the object saw before
    tok = T.make_tokenizer({'kind': 'ws', 'return_set': True})
    shared = T.make_filter(ssj, {'kind': 'SizeFilter', 'measure': m, 'threshold': t}, tok)
    for variant in (0, 1, 2):
        if (N, variant) not in tables_cache:
            if variant == 2:
                L0, R0 = count_tables(N, 1)
                rows = T.spec_rows(L0)[::-1]          # same rows, reversed order
                tables_cache[(N, variant)] = (T.table_spec(['id', 's'], rows, dtypes={'s': 'object'}), R0)
            else:
                tables_cache[(N, variant)] = count_tables(N, variant)
        L, R = tables_cache[(N, variant)]
        call = {'api': 'filter_tables', 'filter': {'kind': 'SizeFilter', 'measure': m, 'threshold': t},
                'ltable': L, 'rtable': R, 'l_key': 'id', 'r_key': 'id', 'l_attr': 's', 'r_attr': 's',
                'tok': {'kind': 'ws', 'return_set': True}, 'n_jobs': 1}
        try:
            df = T.exec_call(ssj, call, {'filter': shared, 'tok': tok})
        except Exception as e:
            rec.count('calls_raised')
            rec.add('raised', '%s: %s' % (type(e).__name__, str(e)[:80]))
            return {'keep': 0, 'drop': 0}
        kept_all = set(zip(df['l_id'].tolist(), df['r_id'].tolist()))
        # a pair with exactly one zero-token side has best attainable similarity 0: it must be dropped
        # whenever 0 is more than 1e-4 below the threshold (the tolerance the property grants)
        for (a, b) in kept_all:
            if t > 1e-4 and (a <= 0) != (b <= 0):
                rec.violation('size_tight', 'SizeFilter(%s,%r) keeps a pair of a zero-token value and a value '
                              'with %d tokens (best attainable similarity 0)' % (m, t, max(a, b)), case=case)
                break
        kept = set(p for p in kept_all if p[0] > 0 and p[1] > 0)
        decisions.append(kept)
        rec.count('size_cells', N * N)
        rec.count('zero_token_rows_probed', 4)
    if decisions[0] != decisions[2]:
        d = sorted(decisions[0] ^ decisions[2])[:3]
        rec.violation('counts_alone', 'SizeFilter(%s,%r): the same filter object decides differently on a '
                      'table holding the same rows in reversed order (after having filtered other '
                      'tables), e.g. count pairs %r' % (m, t, d), case=case)
    if decisions[0] != decisions[1]:
        d = sorted(decisions[0] ^ decisions[1])[:3]
        rec.violation('counts_alone', 'SizeFilter(%s,%r): decision differs between two tables with the '
                      'same token counts but different tokens, e.g. count pairs %r' % (m, t, d), case=case)
    kept = decisions[0]
    for a in range(1, N + 1):
        for b in range(1, N + 1):
            if model.classify(m, '>=', t, a, b, min(a, b)) == model.REQUIRED:
                must_keep += 1
                if (a, b) not in kept:
                    rec.violation('size_keep', 'SizeFilter(%s,%r) drops counts (%d,%d) although a pair '
                                  'with these counts can reach %r' % (m, t, a, b, best_sim(m, a, b)),
                                  case=case)
            elif best_sim(m, a, b) < t - 1e-4:
                must_drop += 1
                if (a, b) in kept:
                    rec.violation('size_tight', 'SizeFilter(%s,%r) keeps counts (%d,%d) whose best '
                                  'attainable similarity is %r' % (m, t, a, b, best_sim(m, a, b)),
                                  case=case)
    # filter_pair on the boundary cells (and a diagonal sample)
    tok = T.make_tokenizer({'kind': 'ws', 'return_set': True})
    flt = T.make_filter(ssj, {'kind': 'SizeFilter', 'measure': m, 'threshold': t}, tok)
    L, R = tables_cache[(N, 1)]
    lv, rv = L['data']['s'], R['data']['s']
    rng = random.Random(int(t * 1e6))
    cells = [(rng.randint(1, N), rng.randint(1, N)) for _ in range(40)]
    for a in range(1, N + 1, 3):
        bs = [b for b in range(1, N + 1) if ((a, b) in kept) != ((a, b + 1) in kept)]
        cells.extend((a, b) for b in bs)
        cells.extend((a, b + 1) for b in bs if b + 1 <= N)
    for (a, b) in cells:
        d = flt.filter_pair(lv[a + 1], rv[b + 1])
        rec.count('size_pair_calls')
        # filter_pair bounds the right count by the left one, filter_tables the left count by the
        # right one; inside the 1e-4 tolerance zone the two may legitimately differ, so each entry
        # point is held to the property's two obligations on its own
        if model.classify(m, '>=', t, a, b, min(a, b)) == model.REQUIRED:
            if d:
                rec.violation('size_keep', 'SizeFilter(%s,%r).filter_pair drops counts (%d,%d) although a '
                              'pair with these counts can reach %r' % (m, t, a, b, best_sim(m, a, b)),
                              case=case)
        elif best_sim(m, a, b) < t - 1e-4:
            if not d:
                rec.violation('size_tight', 'SizeFilter(%s,%r).filter_pair keeps counts (%d,%d) whose best '
                              'attainable similarity is %r' % (m, t, a, b, best_sim(m, a, b)), case=case)
        elif bool(d) == ((a, b) in kept):
            rec.count('tolerance_zone_pair_vs_tables_differences')
    return {'keep': must_keep, 'drop': must_drop}


def size_ed_case(case, rec, ssj):
    N, q, k, pad = case['N'], case['q'], case['k'], case['padding']
    tokspec = {'kind': 'qgram', 'q': q, 'padding': pad, 'return_set': False}
    decisions = []
    for variant in (0, 1):
        ch = 'ab'[variant]
        strs = [(ch * n) if variant == 0 else ''.join('abcde'[i % 5] for i in range(n)) for n in range(0, N + 1)]
        L = T.table_spec(['id', 's'], [[n, s] for n, s in enumerate(strs)], dtypes={'s': 'object'})
        R = T.table_spec(['id', 's'], [[n, s] for n, s in enumerate(strs)], dtypes={'s': 'object'})
        call = {'api': 'filter_tables', 'filter': {'kind': 'SizeFilter', 'measure': 'EDIT_DISTANCE', 'threshold': k},
                'ltable': L, 'rtable': R, 'l_key': 'id', 'r_key': 'id', 'l_attr': 's', 'r_attr': 's',
                'tok': tokspec, 'n_jobs': 1}
        df = T.exec_call(ssj, call)
        decisions.append(set(zip(df['l_id'].tolist(), df['r_id'].tolist())))
        rec.count('size_cells', (N + 1) ** 2)
        cnt = [len(T.model_tokens(tokspec, s, as_set=False)) for s in strs]
    if decisions[0] != decisions[1]:
        rec.violation('counts_alone', 'SizeFilter(EDIT_DISTANCE,%r,q=%d,pad=%r): decision differs for '
                      'strings with the same q-gram counts: %r' % (k, q, pad, sorted(decisions[0] ^ decisions[1])[:3]),
                      case=case)
    kept = decisions[0]
    keep = drop = 0
    for a in range(N + 1):
        for b in range(N + 1):
            ca, cb = cnt[a], cnt[b]
            if ca == 0 and cb == 0:
                continue                     # both-empty: C09
            if abs(ca - cb) > k:
                drop += 1
                if (a, b) in kept:
                    rec.violation('size_tight', 'SizeFilter(EDIT_DISTANCE,%r) keeps q-gram counts (%d,%d)'
                                  % (k, ca, cb), case=case)
            elif ca > 0 and cb > 0:
                keep += 1
                if (a, b) not in kept:
                    rec.violation('size_keep', 'SizeFilter(EDIT_DISTANCE,%r) drops q-gram counts (%d,%d)'
                                  % (k, ca, cb), case=case)
    return {'keep': keep, 'drop': drop}


def random_fspec(rng, kinds):
    kind = rng.choice(kinds)
    if kind == 'OverlapFilter':
        return {'kind': kind, 'overlap_size': rng.choice([1, 1, 2, 3]), 'comp_op': rng.choice(['>=', '>', '='])}
    m = rng.choice(['JACCARD', 'COSINE', 'DICE', 'OVERLAP', 'EDIT_DISTANCE'])
    f = {'kind': kind, 'measure': m, 'allow_empty': rng.random() < 0.6,
         'measure_spelling': gen.spell(rng, m)}
    f['threshold'] = rng.choice([1, 2, 3, 1.0, 1.5, 2.5]) if m == 'OVERLAP' else (rng.choice([0, 1, 2, 3, 5, 1.0, 1.5, 0.5]) if m == 'EDIT_DISTANCE'
                                                                     else gen.random_threshold(rng))
    return f


def nocommon_case(case, rec, ssj):
    rng = random.Random(case['seed'])
    fspec = random_fspec(rng, ['PrefixFilter', 'PositionFilter', 'OverlapFilter'])
    ed = fspec.get('measure') == 'EDIT_DISTANCE'
    tok = gen.random_tokenizer(rng, qgram_only=ed)
    tok['return_set'] = not ed
    L, R, tok = gen.random_table_pair(rng, tok=tok, max_rows=9, missing=0.05, vocab_size=rng.choice([8, 30, 80]))
    call = {'api': 'filter_tables', 'filter': fspec, 'ltable': L, 'rtable': R, 'l_key': 'lid',
            'r_key': 'rid', 'l_attr': 'lattr', 'r_attr': 'rattr', 'tok': tok, 'n_jobs': rng.choice([1, 1, 2, 3])}
    view = oracle.TableView(call, bag=False)
    tk = T.make_tokenizer(tok)
    try:
        flt = T.make_filter(ssj, fspec, tk)
        df = T.exec_call(ssj, call, {'tok': tk, 'filter': flt})
    except Exception as e:
        rec.count('calls_raised')
        rec.add('raised', '%s: %s' % (type(e).__name__, str(e)[:80]))
        return {'n': 0, 'fspec': fspec}
    tag = '%s ' % (fspec,)
    for (i, j, s, lk, rk) in oracle.result_pairs(df, call, view):
        if i is None or j is None or view.lmiss[i] or view.rmiss[j]:
            continue
        a, b = view.ltoks[i], view.rtoks[j]
        if not a and not b:
            continue
        if a.isdisjoint(b):
            rec.violation('no_common_tables', tag + 'filter_tables lists (%r, %r) whose values share no '
                          'token: l=%r r=%r' % (lk, rk, view.lvals[i], view.rvals[j]), case=case)
    n = 0
    for i, a in enumerate(view.ltoks):
        for j, b in enumerate(view.rtoks):
            if a is None or b is None or (not a and not b) or not a.isdisjoint(b):
                continue
            n += 1
            rec.count('nocommon_pair_calls')
            if not flt.filter_pair(view.lvals[i], view.rvals[j]):
                rec.violation('no_common_pair', tag + 'filter_pair keeps (%r, %r) although the values '
                              'share no token' % (view.lvals[i], view.rvals[j]), case=case)
    return {'n': n, 'fspec': fspec}


def subset_case(case, rec, ssj):
    rng = random.Random(case['seed'])
    fspec = random_fspec(rng, ['PositionFilter'])
    ed = fspec.get('measure') == 'EDIT_DISTANCE'
    tok = gen.random_tokenizer(rng, qgram_only=ed)
    tok['return_set'] = not ed
    L, R, tok = gen.random_table_pair(rng, tok=tok, max_rows=10, missing=0.05,
                                      vocab_size=rng.choice([4, 8, 30]))
    outs = {}
    n_jobs = rng.choice([1, 1, 2, 3])
    for kind in ('PositionFilter', 'PrefixFilter', 'SizeFilter'):
        call = {'api': 'filter_tables', 'filter': dict(fspec, kind=kind), 'ltable': L, 'rtable': R,
                'l_key': 'lid', 'r_key': 'rid', 'l_attr': 'lattr', 'r_attr': 'rattr', 'tok': tok,
                'n_jobs': n_jobs}
        try:
            df = T.exec_call(ssj, call)
        except Exception as e:
            rec.count('calls_raised')
            rec.add('raised', '%s: %s' % (type(e).__name__, str(e)[:80]))
            return {'n': 0, 'fspec': fspec}
        outs[kind] = set(zip([model.canon_cell(v) for v in df['l_lid'].tolist()],
                             [model.canon_cell(v) for v in df['r_rid'].tolist()]))
    for other in ('PrefixFilter', 'SizeFilter'):
        extra = outs['PositionFilter'] - outs[other]
        if extra:
            rec.violation('refinement', '%s: PositionFilter.filter_tables(n_jobs=%d) keeps %r which %s with '
                          'the same parameters on the same tables does not' % (fspec, n_jobs,
                                                                               sorted(extra, key=repr)[:3], other),
                          case=case)
    # size tightness on the same random tables (incl. zero-token values)
    m, t = fspec['measure'], fspec['threshold']
    view = oracle.TableView({'ltable': L, 'rtable': R, 'l_key': 'lid', 'r_key': 'rid', 'l_attr': 'lattr',
                             'r_attr': 'rattr', 'tok': tok}, bag=ed)
    for (lk, rk) in outs['SizeFilter']:
        i, j = view.lpos.get(lk), view.rpos.get(rk)
        if i is None or j is None or view.lmiss[i] or view.rmiss[j]:
            continue
        a, b = len(view.ltoks[i]), len(view.rtoks[j])
        if a == 0 and b == 0:
            continue
        rec.count('size_random_pairs')
        if m == 'EDIT_DISTANCE':
            bad = abs(a - b) > t
        elif m == 'OVERLAP':
            bad = False
        else:
            bad = ((a == 0 or b == 0) and t > 1e-4) or (a > 0 and b > 0 and best_sim(m, a, b) < t - 1e-4)
        if bad:
            rec.violation('size_tight', '%s: SizeFilter.filter_tables keeps (%r, %r) with token counts (%d,%d)'
                          % (fspec, lk, rk, a, b), case=case)
    rec.count('subset_pairs', len(outs['PositionFilter']))
    return {'n': len(outs['PositionFilter']), 'fspec': fspec}


def run_case(case, rec, ssj=None):
    ssj = ssj or env.load()
    g = case['gen']
    if g == 'size':
        return size_case(case, rec, ssj, {})
    if g == 'size_ed':
        return size_ed_case(case, rec, ssj)
    if g == 'nocommon':
        return nocommon_case(case, rec, ssj)
    if g == 'subset':
        return subset_case(case, rec, ssj)
    raise ValueError(g)


def contain_case(case, rec, ssj):
    """Containment pairs next to the size boundary: a record of b tokens contained in one of a >= b
    tokens, the shared tokens made the RAREST ones by filler rows (so they sit in both prefixes), on
    either side of the join, at thresholds a relative 1e-6 .. 1e-4 next to the exact boundary score.
    There the size bound evaluated from the left count and from the right count, the overlap bound
    and the prefix length round separately; whatever they do, PositionFilter.filter_tables must keep
    a subset of what SizeFilter and PrefixFilter keep, and SizeFilter must obey its own tolerance."""
    a, b, m = case['a'], case['b'], case['measure']
    t0 = best_sim(m, a, b)
    t = min(1.0, max(1e-6, t0 * (1.0 + case['delta'])))
    shared = ['s%d' % i for i in range(b)]
    others = ['o%d' % i for i in range(a - b)]
    big = [[1, ' '.join(shared + others)]] + [[10 + f, ' '.join(others + ['f%d' % f])] for f in range(3)]
    small = [[2, ' '.join(shared)], [3, 'zz yy']]
    if case['big_left']:
        lrows, rrows = big, small
    else:
        lrows, rrows = small, big
    L = T.table_spec(['id', 's'], lrows, dtypes={'s': 'object'})
    R = T.table_spec(['id', 's'], rrows, dtypes={'s': 'object'})
    outs = {}
    for kind in ('PositionFilter', 'PrefixFilter', 'SizeFilter'):
        call = {'api': 'filter_tables', 'filter': {'kind': kind, 'measure': m, 'threshold': t}, 'ltable': L,
                'rtable': R, 'l_key': 'id', 'r_key': 'id', 'l_attr': 's', 'r_attr': 's',
                'tok': {'kind': 'ws', 'return_set': True}, 'n_jobs': case.get('n_jobs', 1), 'warm': None}
        try:
            df = T.exec_call(ssj, call)
        except Exception as e:
            rec.count('calls_raised')
            rec.add('raised', '%s: %s' % (type(e).__name__, str(e)[:80]))
            return {'n': 0}
        outs[kind] = set(zip(df['l_id'].tolist(), df['r_id'].tolist()))
    rec.count('containment_cases')
    tag = '%s threshold %r (boundary score of %d in %d tokens is %r): ' % (m, t, b, a, t0)
    for other in ('PrefixFilter', 'SizeFilter'):
        extra = outs['PositionFilter'] - outs[other]
        if extra:
            rec.violation('refinement', tag + 'PositionFilter.filter_tables keeps %r which %s with the same '
                          'parameters on the same tables does not' % (sorted(extra)[:3], other), case=case)
    pair = (1, 2) if case['big_left'] else (2, 1)
    if t0 >= t and pair not in outs['SizeFilter']:
        rec.violation('size_keep', tag + 'SizeFilter.filter_tables drops the containment pair although its '
                      'counts allow the threshold to be met', case=case)
    if t0 < t - 1e-4 and pair in outs['SizeFilter']:
        rec.violation('size_tight', tag + 'SizeFilter.filter_tables keeps the pair although the best '
                      'attainable similarity is more than 1e-4 below the threshold', case=case)
    return {'n': len(outs['PositionFilter'])}


def run_shard(shard, rec):
    ssj = env.load()
    monitors.import_repo_modules()
    reach = monitors.Reach()
    reach.start()
    kind = shard['kind']
    if kind == 'size':
        cache = {}
        for t in shard['ths']:
            for m in RATIO3:
                case = {'gen': 'size', 'measure': m, 'threshold': t, 'N': shard['N']}
                st = size_case(case, rec, ssj, cache)
                rec.count('size_must_keep', st['keep'])
                rec.count('size_must_drop', st['drop'])
                rec.case(sig=('size', m, t, shard['N']), nontrivial=st['keep'] > 0 and st['drop'] > 0)
        rec.sample({'workload': 'size grid', 'N': shard['N'], 'thresholds_in_shard': len(shard['ths']),
                    'measures': list(RATIO3)}, limit=1)
    elif kind == 'size_ed':
        for q in (1, 2, 3):
            for pad in (True, False):
                for k in (0, 1, 2, 3, 5, 8):
                    case = {'gen': 'size_ed', 'N': shard['N'], 'q': q, 'k': k, 'padding': pad}
                    st = size_ed_case(case, rec, ssj)
                    rec.count('size_must_keep', st['keep'])
                    rec.count('size_must_drop', st['drop'])
                    rec.case(sig=('size_ed', q, pad, k), nontrivial=st['keep'] > 0 and st['drop'] > 0)
        rec.sample({'workload': 'size grid (edit distance)', 'string lengths': '0..%d' % shard['N']}, limit=1)
    elif kind == 'contain':
        rng = random.Random(shard['seed'])
        combos = [(a, b) for a in range(1, shard['N'] + 1) for b in range(1, a + 1)]
        for i in range(shard['n']):
            a, b = rng.choice(combos)
            case = {'gen': 'contain', 'a': a, 'b': b, 'measure': RATIO3[i % 3], 'big_left': bool(i % 2),
                    'delta': rng.choice([1e-6, 3e-6, 1e-5, 3e-5, 6e-5, 1e-4, 2e-4, -1e-6, 0.0]),
                    'n_jobs': 1 if i % 5 else 2}
            st = contain_case(case, rec, ssj)
            rec.case(sig=('contain', a, b, case['measure'], case['delta'], case['big_left']), nontrivial=True)
        rec.sample({'workload': 'containment pairs next to the size boundary', 'N': shard['N']}, limit=1)
    else:
        fn = nocommon_case if kind == 'nocommon' else subset_case
        for i in range(shard['n']):
            case = {'gen': kind, 'seed': shard['seed'] * 100000 + i}
            st = fn(case, rec, ssj)
            rec.case(sig=(kind, case['seed']), nontrivial=st['n'] > 0)
            rec.add('filter_measure', (st['fspec']['kind'], st['fspec'].get('measure')))
            if i == 0:
                rec.sample({'workload': kind, 'filter': st['fspec']}, limit=1)
    reach.stop()
    for k, v in reach.anchors(ANCHORS).items():
        rec.reach[k] = v


def finalize(agg, tier):
    c = agg['counters']
    for k in ('size_must_keep', 'size_must_drop', 'nocommon_pair_calls', 'subset_pairs'):
        if c.get(k, 0) == 0:
            agg['inconclusive'].append('%s == 0' % k)


def coverage_extra(agg, tier):
    c = agg['counters']
    return {'size_cells': c.get('size_cells', 0), 'size_must_keep': c.get('size_must_keep', 0),
            'size_must_drop': c.get('size_must_drop', 0),
            'nocommon_pair_calls': c.get('nocommon_pair_calls', 0),
            'subset_pairs': c.get('subset_pairs', 0),
            'exhaustive_subspaces': ['size grid: every count pair (a,b)<=N x N for every threshold of '
                                     'the grid x {JACCARD,COSINE,DICE}; every string-length pair <= N '
                                     'x k x q x padding for EDIT_DISTANCE']}
