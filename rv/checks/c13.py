"""C13 -- joins obey transposition, threshold-refinement and operator-partition laws.

Deciding oracles (metamorphic, no external reference): swapping the tables gives the same pairs with
keys swapped and identical scores; the join at a stricter threshold is exactly the rows of the laxer
join whose reported score meets the stricter threshold; the '>=' ('<=') result is the disjoint union
of the '>' ('<') and '=' results.  Both-empty pairs and pairs whose raw and rounded scores straddle
a threshold (decided lazily by the model on the two values) are excluded, as the property says."""
import random

from rv import env, gen, model, monitors, oracle
from rv import tables as T
from rv.checks import c03, c07

PROPERTY = 'C13'
LEVEL = 'exploration'
RULE = ('cases = (join, tables, threshold pair, operator) on seeded random tables, mutation '
        'neighbourhoods for edit distance, the bundled person data and samples of the bundled books '
        'data (thorough: 1200-row samples of books, 3500-row Zipf tables), tables whose pairs score exactly the stricter threshold (sets up to 64 tokens), rare-shared-token tables with and without the score column, ambiguous token sets; each case runs the join transposed, at two thresholds and '
        'with the three operators. Non-trivial = the laxer join returns at least one pair that is '
        'neither both-empty nor missing; distinct = case seed.')
ASSUMPTIONS = ['py_stringmatching tokenizers are trusted (used only to classify straddling pairs)']
SHARD_TIMEOUT = {'quick': 600, 'thorough': 5400}

ANCHORS = {
    'set_sim_join.loop': ('py_stringsimjoin/join/set_sim_join.py', r'for cand, overlap in iteritems\(candidate_overlap\)'),
    'edit.loop': ('py_stringsimjoin/join/edit_distance_join_py.py', r'for cand in candidates'),
    'oc.loop': ('py_stringsimjoin/join/overlap_coefficient_join_py.py', r'for cand, overlap in iteritems\(candidate_overlap\)'),
    'overlap.loop': ('py_stringsimjoin/filter/overlap_filter.py', r'for cand, overlap in iteritems\(candidate_overlap\)'),
}


def plan(tier, seed):
    n = 160 if tier == 'quick' else 2000
    shards = [{'name': 'law_%d' % i, 'kind': 'law', 'n': n, 'seed': seed * 1000 + 220 + i}
              for i in range(11)]
    ths = gen.threshold_pool('basic')
    combos = [(m, t) for m in ('JACCARD', 'COSINE', 'DICE') for t in ths]
    random.Random(seed * 1000 + 219).shuffle(combos)
    if tier == 'quick':
        combos = combos[:90]
    for i in range(3):
        shards.append({'name': 'tight_%d' % i, 'kind': 'tight', 'N': 30 if tier == 'quick' else 40,
                       'combos': combos[i::3]})
    w4 = gen.exact_score_plan(random.Random(seed * 1000 + 46),
                              ('JACCARD', 'COSINE', 'DICE', 'OVERLAP_COEFFICIENT'),
                              40 if tier == 'quick' else 1200)
    nw4 = 2 if tier == 'quick' else 6
    for i in range(nw4):
        shards.append({'name': 'w4_%d' % i, 'kind': 'w4', 'combos': w4[i::nw4], 'seed': seed * 1000 + 240 + i})
    shards.append({'name': 'ubiq', 'kind': 'ubiq', 'n': 17000 if tier == 'quick' else 40000,
                   'cases': [('overlap_coefficient_join', (0.5, 1.0))] if tier == 'quick' else
                   [('overlap_coefficient_join', (0.5, 1.0)), ('jaccard_join', (0.3, 0.5)), ('overlap_join', (1, 2)),
                    ('cosine_join', (0.5, 0.7)), ('overlap_coefficient_join', (0.3, 0.5))], 'seed': seed * 1000 + 249})
    shards.append({'name': 'ambig', 'kind': 'ambig', 'n': 40 if tier == 'quick' else 500, 'seed': seed * 1000 + 248})
    shards.append({'name': 'w5', 'kind': 'w5', 'N': 6 if tier == 'quick' else 9,
                   'n': 12 if tier == 'quick' else 150, 'seed': seed * 1000 + 247})
    shards.append({'name': 'person', 'kind': 'data', 'data': 'person', 'n': 30 if tier == 'quick' else 200,
                   'seed': seed * 1000 + 232})
    shards.append({'name': 'books_a', 'kind': 'data', 'data': 'books', 'rows': 400 if tier == 'quick' else 1200,
                   'n': 5 if tier == 'quick' else 10, 'seed': seed * 1000 + 233})
    shards.append({'name': 'books_b', 'kind': 'data', 'data': 'books', 'rows': 400 if tier == 'quick' else 1200,
                   'n': 5 if tier == 'quick' else 10, 'seed': seed * 1000 + 234})
    if tier == 'thorough':
        for z in range(3):      # (one shard took > 70 min with 5000 rows x 6 cases: three shards of 3500 rows x 2)
            shards.append({'name': 'zipf_%d' % z, 'kind': 'data', 'data': 'zipf', 'rows': 3500, 'n': 2,
                           'seed': seed * 1000 + 235 + 10 * z})
    return shards


class LazyClass(object):
    def __init__(self, call):
        self.call = call
        L, R = call['ltable'], call['rtable']
        self.lv = dict((model.canon_cell(k), v) for k, v in zip(L['data'][call['l_key']], L['data'][call['l_attr']]))
        self.rv = dict((model.canon_cell(k), v) for k, v in zip(R['data'][call['r_key']], R['data'][call['r_attr']]))
        self.measure = T.JOIN_MEASURE[call['api']]

    def info(self, lk, rk):
        lv, rv = self.lv.get(lk), self.rv.get(rk)
        if model.is_missing(lv) or model.is_missing(rv):
            return 'missing', None
        if self.measure == 'EDIT_DISTANCE':
            return 'present', None
        a = set(T.model_tokens(self.call['tok'], lv, as_set=True))
        b = set(T.model_tokens(self.call['tok'], rv, as_set=True))
        if not a and not b:
            return 'both_empty', None
        return 'present', (len(a), len(b), len(a & b))

    def excluded(self, lk, rk, ops_thresholds):
        kind, abo = self.info(lk, rk)
        if kind in ('both_empty',):
            return True
        if kind == 'missing' or abo is None:
            return False
        a, b, o = abo
        if a == 0 or b == 0:
            return False
        for op, t in ops_thresholds:
            if model.classify(self.measure, op, t, a, b, o, identical_shortcut=False) == model.ALLOWED:
                return True
        return False


def keymap(df, call, swap=False):
    lcol = call.get('l_out_prefix', 'l_') + call['l_key']
    rcol = call.get('r_out_prefix', 'r_') + call['r_key']
    sc = df['_sim_score'].tolist() if '_sim_score' in df.columns else [None] * len(df)
    out = {}
    for a, b, s in zip(df[lcol].tolist(), df[rcol].tolist(), sc):
        k = (model.canon_cell(a), model.canon_cell(b))
        if swap:
            k = (k[1], k[0])
        out.setdefault(k, []).append(None if model.is_missing(s) else s)
    return out


def run_join(ssj, rec, call):
    try:
        return T.exec_call(ssj, call)
    except Exception as e:
        rec.count('calls_raised')
        rec.add('raised', '%s %s: %s' % (call['api'], type(e).__name__, str(e)[:80]))
        return None


def transposed(call):
    c = dict(call)
    c['ltable'], c['rtable'] = call['rtable'], call['ltable']
    c['l_key'], c['r_key'] = call['r_key'], call['l_key']
    c['l_attr'], c['r_attr'] = call['r_attr'], call['l_attr']
    c['l_out_attrs'], c['r_out_attrs'] = None, None
    return c


def check_laws(ssj, rec, case, call, t_lax, t_strict, with_score=True):
    """call: join call without threshold/comp_op decided; returns number of non-trivial pairs.
    with_score=False runs every join without the _sim_score column (transposition and operator
    partition on the key pairs; refinement needs the scores and is skipped)."""
    measure = T.JOIN_MEASURE[call['api']]
    ed = measure == 'EDIT_DISTANCE'
    ge, gt, eq = ('<=', '<', '=') if ed else ('>=', '>', '=')
    fn = model.OPS
    lazy = LazyClass(call)
    tag = '%s ' % call['api']
    base = dict(call, threshold=t_lax, comp_op=ge, l_out_attrs=None, r_out_attrs=None,
                out_sim_score=bool(with_score))
    base.pop('l_out_prefix', None)
    base.pop('r_out_prefix', None)
    d_lax = run_join(ssj, rec, base)
    if d_lax is None:
        return 0
    K_lax = keymap(d_lax, base)
    nontrivial = sum(1 for k in K_lax if lazy.info(*k)[0] == 'present')
    # ---- transposition
    tr = transposed(base)
    d_tr = run_join(ssj, rec, tr)
    if d_tr is not None:
        K_tr = keymap(d_tr, tr, swap=True)
        rec.count('transposition_pairs', len(K_lax))
        for k in set(K_lax) | set(K_tr):
            if K_lax.get(k) != K_tr.get(k):
                if lazy.excluded(k[0], k[1], [(ge, t_lax)]):
                    rec.count('excluded_pairs')
                    continue
                rec.violation('transposition', tag + '%s %r: pair %r has scores %r, after swapping the '
                              'tables %r' % (ge, t_lax, k, K_lax.get(k), K_tr.get(k)), case=case)
    # ---- threshold refinement
    strict = dict(base, threshold=t_strict)
    d_strict = run_join(ssj, rec, strict) if with_score else None
    if d_strict is not None:
        K_strict = keymap(d_strict, strict)
        exp = dict((k, v) for k, v in K_lax.items()
                   if any(s is not None and fn[ge](s, t_strict) for s in v) or
                   (all(s is None for s in v)))      # missing-value pairs are threshold independent
        rec.count('refinement_pairs', len(exp))
        for k in set(exp) | set(K_strict):
            if exp.get(k) != K_strict.get(k):
                if lazy.excluded(k[0], k[1], [(ge, t_lax), (ge, t_strict)]):
                    rec.count('excluded_pairs')
                    continue
                rec.violation('refinement', tag + 'pair %r: scores %r in the %s %r result but %r in the '
                              '%s %r result' % (k, K_lax.get(k), ge, t_lax, K_strict.get(k), ge, t_strict),
                              case=case)
    # ---- operator partition (at the laxer threshold and at an attained score)
    for t in (t_lax,) + ((case.get('t_attained'),) if case.get('t_attained') is not None else ()):
        parts = {}
        for op in (ge, gt, eq):
            d = d_lax if (op == ge and t == t_lax) else run_join(ssj, rec, dict(base, threshold=t, comp_op=op))
            if d is None:
                parts = None
                break
            parts[op] = keymap(d, base)
        if parts is None:
            continue
        rec.count('partition_pairs', len(parts[ge]))
        miss_both = set(k for k in parts[gt] if k in parts[eq] and lazy.info(*k)[0] != 'missing')
        for k in miss_both:
            if not lazy.excluded(k[0], k[1], [(ge, t), (gt, t), (eq, t)]):
                rec.violation('partition', tag + "threshold %r: pair %r is in both the '%s' and the '%s' "
                              "result" % (t, k, gt, eq), case=case)
        for k in set(parts[ge]) | set(parts[gt]) | set(parts[eq]):
            if lazy.info(*k)[0] == 'missing':
                continue
            union = (parts[gt].get(k) or []) + (parts[eq].get(k) or [])
            if (parts[ge].get(k) or []) != union and k not in miss_both:
                if lazy.excluded(k[0], k[1], [(ge, t), (gt, t), (eq, t)]):
                    rec.count('excluded_pairs')
                    continue
                rec.violation('partition', tag + "threshold %r: pair %r: '%s' gives %r, '%s' gives %r, "
                              "'%s' gives %r" % (t, k, ge, parts[ge].get(k), gt, parts[gt].get(k), eq,
                                                 parts[eq].get(k)), case=case)
    return nontrivial


def make_case_call(rng):
    api = rng.choice(T.JOINS)
    if api == 'edit_distance_join':
        call = c03.nb_call(rng)
        ts = sorted(rng.sample([0, 1, 2, 3, 4, 1.5, 2.5, 0.5, 3.25], 2))
        t_lax, t_strict = ts[1], ts[0]
    else:
        call = gen.random_join_call(rng, api=api, max_rows=10)
        if api == 'overlap_join':
            ts = sorted(rng.sample([1, 2, 3, 4, 1.5, 2.5, 0.5], 2))
        else:
            a, b = gen.random_threshold(rng), gen.random_threshold(rng)
            if a == b:
                b = min(1.0, a + 0.1) if a < 1.0 else 0.5
            ts = sorted([a, b])
        t_lax, t_strict = ts[0], ts[1]
    return call, t_lax, t_strict


def tight_case(case, rec, ssj):
    """The laws on tight tables: every size pair <= N exactly on the (laxer) threshold, so the size /
    prefix / position bounds are exercised in both roles (indexed vs probing side)."""
    m, t, N = case['measure'], case['threshold'], case['N']
    sizes = [(a, b) for a in range(1, N + 1) for b in range(1, N + 1)]
    L, R, groups = gen.tight_tables(m, t, sizes)
    call = {'api': T.MEASURE_JOIN[m], 'ltable': L, 'rtable': R, 'l_key': 'id', 'r_key': 'id',
            'l_attr': 's', 'r_attr': 's', 'tok': {'kind': 'ws', 'return_set': True},
            'allow_missing': False, 'n_jobs': 1}
    t2 = min(1.0, t + 0.05) if t < 1.0 else 1.0
    if t2 == t:
        t, t2 = 0.95, 1.0
    nt = check_laws(ssj, rec, dict(case, t_attained=t), call, t, t2)
    rec.count('nontrivial_pairs', nt)
    return {'nontrivial': nt, 'call': call, 't': (t, t2)}


def exact_case(case, rec, ssj):
    """The laws with the stricter threshold being the exact double-precision score of pairs of sets
    with up to 64 tokens (rewrite-sensitive points first): the boundary pairs are in the laxer result
    with exactly that score, so refinement and the operator partition decide them."""
    m, t = case['measure'], case['threshold']
    L, R, groups = gen.exact_score_tables(m, t, random.Random(case['seed']))
    call = {'api': T.MEASURE_JOIN[m], 'ltable': L, 'rtable': R, 'l_key': 'id', 'r_key': 'id',
            'l_attr': 's', 'r_attr': 's', 'tok': {'kind': 'ws', 'return_set': True},
            'allow_missing': False, 'n_jobs': 1}
    nt = check_laws(ssj, rec, dict(case, t_attained=t), call, max(1e-3, round(t * 0.7, 3)), t)
    rec.count('nontrivial_pairs', nt)
    rec.count('w4_exact_score_thresholds')
    return {'nontrivial': nt, 'call': call, 't': (t * 0.7, t)}


def w5_case(case, rec, ssj):
    """The laws on the rare-shared-token tables at an attained score, with and without the score
    column (a shortcut that skips verification may depend on whether the score is requested)."""
    m, t = case['measure'], case['threshold']
    L, R, groups = gen.rare_shared_tables(case['N'])
    call = {'api': T.MEASURE_JOIN[m], 'ltable': L, 'rtable': R, 'l_key': 'id', 'r_key': 'id',
            'l_attr': 's', 'r_attr': 's', 'tok': {'kind': 'ws', 'return_set': True},
            'allow_missing': False, 'n_jobs': case.get('n_jobs', 1)}
    nt = check_laws(ssj, rec, dict(case), call, t, min(1.0, t + 0.1), with_score=case['with_score'])
    rec.count('nontrivial_pairs', nt)
    rec.count('w5_cases')
    return {'nontrivial': nt, 'call': call, 't': (t, min(1.0, t + 0.1))}


def run_case(case, rec, ssj=None, data=None):
    ssj = ssj or env.load()
    if case['gen'] == 'tight':
        return tight_case(case, rec, ssj)
    if case['gen'] == 'w5':
        return w5_case(case, rec, ssj)
    if case['gen'] == 'modular':
        L, R = gen.modular_tables(case['M'], case.get('k', 3))
        call = {'api': case['api'], 'ltable': L, 'rtable': R, 'l_key': 'id', 'r_key': 'id', 'l_attr': 's',
                'r_attr': 's', 'tok': {'kind': 'ws', 'return_set': True}, 'allow_missing': False,
                'n_jobs': case.get('n_jobs', 1), 'warm': None}
        # (laxer threshold 0.15: one common token is enough to be a candidate there)
        nt = check_laws(ssj, rec, dict(case, t_attained=1.0), call, 0.15, 1.0)
        rec.count('nontrivial_pairs', nt)
        rec.count('modular_rank_cases')
        return {'nontrivial': nt, 'call': call, 't': (0.15, 1.0)}
    if case['gen'] == 'ubiq':
        L, R = gen.ubiquitous_tables(case['n'], random.Random(case['seed']))
        call = {'api': case['api'], 'ltable': L, 'rtable': R, 'l_key': 'id', 'r_key': 'id', 'l_attr': 's',
                'r_attr': 's', 'tok': {'kind': 'ws', 'return_set': True}, 'allow_missing': False, 'n_jobs': 1,
                'warm': None}
        t_lax, t_strict = case['t']
        nt = check_laws(ssj, rec, dict(case, t_attained=t_strict), call, t_lax, t_strict)
        rec.count('nontrivial_pairs', nt)
        rec.count('ubiquitous_token_cases')
        return {'nontrivial': nt, 'call': call, 't': (t_lax, t_strict)}
    if case['gen'] == 'ambig':
        rng = random.Random(case['seed'])
        L, R, tok = gen.ambiguous_tables(rng)
        api = rng.choice(['jaccard_join', 'cosine_join', 'dice_join', 'overlap_coefficient_join'])
        call = {'api': api, 'ltable': L, 'rtable': R, 'l_key': 'lid', 'r_key': 'rid', 'l_attr': 'lattr',
                'r_attr': 'rattr', 'tok': tok, 'allow_missing': False, 'n_jobs': rng.choice([1, 2])}
        t_strict = rng.choice([1.0, 1.0, 1, 0.9999, 0.75])
        nt = check_laws(ssj, rec, dict(case, t_attained=1.0), call, rng.choice([0.2, 0.3, 0.5]), t_strict)
        rec.count('nontrivial_pairs', nt)
        return {'nontrivial': nt, 'call': call, 't': (0.2, t_strict)}
    if case['gen'] == 'w4':
        return exact_case(case, rec, ssj)
    rng = random.Random(case['seed'])
    if case['gen'] == 'law':
        call, t_lax, t_strict = make_case_call(rng)
    else:
        call, t_lax, t_strict = data_call(rng, case, data or load_data(ssj, case))
    # an attained score as threshold makes the '=' part non-empty
    probe = run_join(ssj, rec, dict(call, threshold=t_lax,
                                    comp_op='<=' if call['api'] == 'edit_distance_join' else '>=',
                                    out_sim_score=True, l_out_attrs=None, r_out_attrs=None))
    c2 = dict(case)
    if probe is not None and '_sim_score' in probe.columns:
        sc = [s for s in probe['_sim_score'].tolist() if not model.is_missing(s)]
        if sc:
            s = rng.choice(sc)
            if call['api'] in ('overlap_join', 'edit_distance_join'):
                s = int(s)
            if (call['api'] == 'edit_distance_join' and s >= 0) or (s > 0 and (s <= 1 or call['api'] == 'overlap_join')):
                c2['t_attained'] = s
    nt = check_laws(ssj, rec, c2, call, t_lax, t_strict)
    rec.count('nontrivial_pairs', nt)
    return {'nontrivial': nt, 'call': call, 't': (t_lax, t_strict)}


def load_data(ssj, case):
    if case['data'] == 'person':
        return c07.load_person(ssj)
    if case['data'] == 'books':
        A, B = ssj.load_books_dataset()
        n = case.get('rows', 400)
        rng = random.Random(case.get('sample_seed', 1))
        ia = sorted(rng.sample(range(len(A)), min(n, len(A))))
        ib = sorted(rng.sample(range(len(B)), min(n, len(B))))

        def spec(df, idx):
            df = df.iloc[idx]
            cols = ['ID', 'Title', 'Author']
            data = dict((c, [None if model.is_missing(v) else (v.item() if hasattr(v, 'item') else v)
                             for v in df[c].tolist()]) for c in cols)
            return {'cols': cols, 'data': data, 'index': None,
                    'dtypes': {'Title': 'object', 'Author': 'object'}}
        return spec(A, ia), spec(B, ib)
    if case['data'] == 'zipf':
        rng = random.Random(77)
        n = case.get('rows', 8000)
        vocab = ['w%d' % i for i in range(5000)]

        def tbl():
            rows = []
            for i in range(n):
                k = rng.randint(1, 12)
                rows.append([i, ' '.join(vocab[min(4999, int(rng.paretovariate(0.9)) - 1)] for _ in range(k))])
            return T.table_spec(['id', 's'], rows, dtypes={'s': 'object'})
        return tbl(), tbl()
    raise ValueError(case['data'])


def data_call(rng, case, data):
    L, R = data
    if case['data'] == 'person':
        lk, rk = 'A.id', 'B.id'
        la, ra = rng.choice([('A.name', 'B.name'), ('A.address', 'B.address')])
    elif case['data'] == 'books':
        lk, rk = 'ID', 'ID'
        la, ra = rng.choice([('Title', 'Title'), ('Author', 'Author'), ('Title', 'Title')])
    else:
        lk, rk, la, ra = 'id', 'id', 's', 's'
    api = rng.choice(['jaccard_join', 'cosine_join', 'dice_join', 'overlap_coefficient_join',
                      'overlap_join', 'edit_distance_join'] if case['data'] != 'zipf' else
                     ['jaccard_join', 'cosine_join', 'dice_join'])
    if api == 'edit_distance_join':
        tok = {'kind': 'qgram', 'q': rng.choice([2, 3]), 'padding': True, 'return_set': False}
        ts = sorted(rng.sample([1, 2, 3, 4], 2))
        t_lax, t_strict = ts[1], ts[0]
    else:
        tok = rng.choice([{'kind': 'ws', 'return_set': True}, {'kind': 'qgram', 'q': 3, 'padding': True,
                                                                'return_set': True},
                          {'kind': 'alnum', 'return_set': False}])
        if api == 'overlap_join':
            t_lax, t_strict = rng.choice([(2, 3), (3, 5), (4, 6)])
        else:
            t_lax = rng.choice([0.5, 0.6, 0.7, 0.75])
            t_strict = rng.choice([0.8, 0.85, 0.9, 1.0])
    call = {'api': api, 'ltable': L, 'rtable': R, 'l_key': lk, 'r_key': rk, 'l_attr': la, 'r_attr': ra,
            'tok': tok, 'allow_missing': False, 'n_jobs': 1}
    if case['data'] in ('zipf', 'books'):
        call['warm'] = None             # (the used-before presentation would double these long joins)
    return call, t_lax, t_strict


def run_shard(shard, rec):
    ssj = env.load()
    monitors.import_repo_modules()
    reach = monitors.Reach()
    reach.start()
    data = None
    if shard['kind'] == 'tight':
        for (m, t) in shard['combos']:
            case = {'gen': 'tight', 'measure': m, 'threshold': t, 'N': shard['N']}
            st = tight_case(case, rec, ssj)
            rec.case(sig=('tight', m, t, shard['N']), nontrivial=st['nontrivial'] > 0, n=7)
            rec.add('api', st['call']['api'])
        rec.sample({'workload': 'tight tables', 'N': shard['N'], 'combos': shard['combos'][:3]}, limit=1)
        shard = dict(shard, n=0)
    if shard['kind'] == 'ubiq':
        for i, M in enumerate([256, 1024] if rec.tier == 'quick' else [64, 128, 256, 512, 1024, 2048]):
            case = {'gen': 'modular', 'M': M, 'k': 3, 'api': ('jaccard_join', 'cosine_join', 'dice_join')[i % 3],
                    'n_jobs': 1 + i % 2}
            st = run_case(case, rec, ssj)
            rec.case(sig=('modular', M, case['api']), nontrivial=st['nontrivial'] > 0, n=7)
            rec.add('api', case['api'])
        for i, (api, t) in enumerate(shard['cases']):
            case = {'gen': 'ubiq', 'n': shard['n'], 'api': api, 't': list(t), 'seed': shard['seed'] + i}
            st = run_case(case, rec, ssj)
            rec.case(sig=('ubiq', api, tuple(t), shard['n']), nontrivial=st['nontrivial'] > 0, n=7)
            rec.add('api', api)
        rec.sample({'workload': 'one token in more than 2**14 left rows', 'rows': shard['n']}, limit=1)
        shard = dict(shard, n=0)
    if shard['kind'] == 'ambig':
        for i in range(shard['n']):
            case = {'gen': 'ambig', 'seed': shard['seed'] * 100000 + i}
            st = run_case(case, rec, ssj)
            rec.case(sig=('ambig', case['seed']), nontrivial=st['nontrivial'] > 0, n=7)
            rec.add('api', st['call']['api'])
        rec.sample({'workload': 'ambiguous token sets (comma tokenizer, tokens with blanks)',
                    'left_values': T.column(st['call']['ltable'], 'lattr')[:4]}, limit=1)
        shard = dict(shard, n=0)
    if shard['kind'] == 'w5':
        rng = random.Random(shard['seed'])
        for m in ('JACCARD', 'COSINE', 'DICE', 'OVERLAP_COEFFICIENT'):
            for i, t in enumerate(gen.near_score_thresholds(m, shard['N'], rng, shard['n'])):
                case = {'gen': 'w5', 'N': shard['N'], 'measure': m, 'threshold': t, 'with_score': i % 2 == 0,
                        'n_jobs': 1 + i % 2}
                st = w5_case(case, rec, ssj)
                rec.case(sig=('w5', m, t, case['with_score']), nontrivial=st['nontrivial'] > 0, n=6)
                rec.add('api', st['call']['api'])
        rec.sample({'workload': 'W5 rare shared tokens, laws with and without the score column',
                    'N': shard['N']}, limit=1)
        shard = dict(shard, n=0)
    if shard['kind'] == 'w4':
        for i, (m, t, _op) in enumerate(shard['combos']):
            case = {'gen': 'w4', 'measure': m, 'threshold': t, 'seed': shard['seed'] * 100000 + i}
            st = exact_case(case, rec, ssj)
            rec.case(sig=('w4', m, t), nontrivial=st['nontrivial'] > 0, n=7)
            rec.add('api', st['call']['api'])
        rec.sample({'workload': 'exact-score thresholds (sets up to 64 tokens)', 'last': case}, limit=1)
        shard = dict(shard, n=0)
    for i in range(shard['n']):
        if shard['kind'] == 'law':
            case = {'gen': 'law', 'seed': shard['seed'] * 100000 + i}
        else:
            case = {'gen': 'data', 'data': shard['data'], 'rows': shard.get('rows'),
                    'seed': shard['seed'] * 100000 + i, 'sample_seed': shard['seed']}
            if data is None:
                data = load_data(ssj, case)
        st = run_case(case, rec, ssj, data)
        rec.case(sig=(shard['kind'], shard.get('data'), case['seed']), nontrivial=st['nontrivial'] > 0,
                 n=7)
        rec.add('api', st['call']['api'])
        if i == 0:
            rec.sample({'workload': shard.get('data', 'random tables'), 'api': st['call']['api'],
                        'thresholds (lax, strict)': st['t'], 'tok': st['call']['tok'],
                        'left_values': T.column(st['call']['ltable'], st['call']['l_attr'])[:3]}, limit=1)
    reach.stop()
    for k, v in reach.anchors(ANCHORS).items():
        rec.reach[k] = v


def finalize(agg, tier):
    c = agg['counters']
    for k in ('transposition_pairs', 'refinement_pairs', 'partition_pairs'):
        if c.get(k, 0) == 0:
            agg['inconclusive'].append('%s == 0' % k)


def coverage_extra(agg, tier):
    c = agg['counters']
    return dict((k, c.get(k, 0)) for k in ('transposition_pairs', 'refinement_pairs', 'partition_pairs',
                                            'excluded_pairs', 'nontrivial_pairs'))
