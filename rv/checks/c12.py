"""C12 -- calls leave inputs and tokenizer untouched; no call affects a later one.

Monitors over call histories that share DataFrame and tokenizer objects:
 (i)  deep snapshot (values incl. the kind of missing value, dtypes, columns, index) of every shared
      table / candidate set before and after each call -> any difference is a violation;
 (ii) tokenizer trace: after every call that returns normally the full tokenizer configuration equals
      the one before the call (flips in between are counted to prove the mechanism ran);
 (iii) each call's result equals the result of the same call made in isolation on fresh deep copies
      and a freshly constructed tokenizer (incl. edit_distance_join's shared default tokenizer)."""
import copy
import os
import random
import sys

from rv import env, gen, model, monitors, oracle
from rv import tables as T
from rv.checks import c08

PROPERTY = 'C12'
LEVEL = 'exploration'
RULE = ('cases = seeded histories of 6-16 API calls (6 joins, 5 filters x filter_pair/filter_tables/'
        'filter_candset, apply_matcher, profiler, non-inplace converters, interleaved rejected calls) '
        'over a pool of shared DataFrames and shared tokenizers (set-mode, bag-mode, q-gram set-mode, '
        'the implicit default of edit_distance_join); every call is snapshotted before/after and '
        're-run in isolation; a third of the histories hold values of 60-150 tokens; every filter '
        'object that served in a history is compared with a fresh one on 250-2500 pairs; module-level '
        'state of the library is compared around every call and, once it changed, calls are also '
        'compared with runs in a process of their own. Non-trivial = history with at least one tokenizer flag flip observed '
        'or at least 5 completed calls; distinct = history seed.')
ASSUMPTIONS = ['py_stringmatching tokenizers are trusted; their whole __dict__ is the configuration']
SHARD_TIMEOUT = {'quick': 600, 'thorough': 3600}

TOKS = {
    'S': {'kind': 'ws', 'return_set': True},
    'B': {'kind': 'ws', 'return_set': False},
    'QB': {'kind': 'qgram', 'q': 2, 'padding': True, 'return_set': False},
    'QS': {'kind': 'qgram', 'q': 3, 'padding': True, 'return_set': True},
    'QU': {'kind': 'qgram', 'q': 2, 'padding': False, 'return_set': True},
    'D': {'kind': 'qgram', 'q': 2, 'padding': True, 'return_set': False},   # the implicit default
}

ANCHORS = {
    'jaccard.flip_on': ('py_stringsimjoin/join/jaccard_join_py.py', r'tokenizer.set_return_set\(True\)'),
    'jaccard.flip_back': ('py_stringsimjoin/join/jaccard_join_py.py', r'tokenizer.set_return_set\(False\)'),
    'edit.flip_off': ('py_stringsimjoin/join/edit_distance_join_py.py', r'tokenizer.set_return_set\(False\)'),
    'edit.flip_back': ('py_stringsimjoin/join/edit_distance_join_py.py', r'tokenizer.set_return_set\(True\)'),
    'overlap.flip_on': ('py_stringsimjoin/join/overlap_join_py.py', r'tokenizer.set_return_set\(True\)'),
    'oc.flip_on': ('py_stringsimjoin/join/overlap_coefficient_join_py.py', r'tokenizer.set_return_set\(True\)'),
}


def plan(tier, seed):
    n = 45 if tier == 'quick' else 500
    return [{'name': 'hist_%d' % i, 'kind': 'hist', 'n': n, 'seed': seed * 1000 + 200 + i}
            for i in range(14)]


def make_pool(rng):
    tables = {'l': [], 'r': []}
    for k in range(2):
        L, R, _ = gen.random_table_pair(rng, tok={'kind': 'ws', 'return_set': True}, max_rows=7,
                                        missing=0.12)
        # (the pool's tables are also profiled and converted: the profiler cannot address one of two
        #  columns that share a label, so no duplicate labels here)
        L.pop('dup_label', None)
        R.pop('dup_label', None)
        tables['l'].append(L)
        tables['r'].append(R)
    if rng.random() < 0.3:
        # the tokenizers' pad characters occur in the data ('#tag', '$5')
        for k in range(2):
            for spec, side in ((tables['l'][k], 'l'), (tables['r'][k], 'r')):
                vals = spec['data'][side + 'attr']
                for i in range(len(vals)):
                    if isinstance(vals[i], str) and rng.random() < 0.3:
                        vals[i] = rng.choice(['#', '$', '#tag ', 'a$b ']) + vals[i] + rng.choice(['', '$', ' #'])
    if rng.random() < 0.35:
        # long values (60-150 tokens) in one table pair: whatever a call learns from unusually long
        # records must not carry over to later calls
        k = rng.randrange(2)
        words = ['w%d' % i for i in range(rng.choice([30, 200]))]
        sides = rng.choice([((tables['l'][k], 'l'), (tables['r'][k], 'r')), ((tables['r'][k], 'r'),),
                            ((tables['l'][k], 'l'),)])       # both sides, or short codes against long texts
        for spec, side in sides:
            vals = spec['data'][side + 'attr']
            for i in range(len(vals)):
                if isinstance(vals[i], str) and rng.random() < 0.6:
                    vals[i] = ' '.join(rng.choice(words) for _ in range(rng.randint(60, 150)))
    return tables


def random_step(rng, pool):
    li, ri = rng.randrange(2), rng.randrange(2)
    L, R = pool['l'][li], pool['r'][ri]
    r = rng.random()
    step = {'li': li, 'ri': ri}
    base = {'ltable': L, 'rtable': R, 'l_key': 'lid', 'r_key': 'rid', 'l_attr': 'lattr',
            'r_attr': 'rattr', 'n_jobs': rng.choice([1, 1, 2, 3]),
            'l_out_attrs': gen.random_out_attrs(rng, L, 'lid', 'lattr'),
            'r_out_attrs': gen.random_out_attrs(rng, R, 'rid', 'rattr')}
    if r < 0.40:
        api = rng.choice(T.JOINS)
        call = dict(base, api=api, allow_missing=rng.random() < 0.3, out_sim_score=rng.random() < 0.8)
        if api == 'edit_distance_join':
            step['tok'] = rng.choice(['QB', 'QS', 'QU', 'D', 'D'])
            call['threshold'] = rng.choice([0, 1, 2, 3, 1.5, 2.5, 0.5, 2.0])
            call['comp_op'] = rng.choice(['<=', '<', '='])
        else:
            step['tok'] = rng.choice(['S', 'B', 'QB', 'QS', 'QU'])
            call['comp_op'] = rng.choice(['>=', '>', '='])
            if api == 'overlap_join':
                call['threshold'] = rng.choice([1, 2])
            else:
                call['threshold'] = gen.random_threshold(rng)
                call['allow_empty'] = rng.random() < 0.6
        if rng.random() < 0.12:          # a rejected call in the middle of the history
            step['expect_reject'] = True
            bad = rng.choice(['threshold', 'attr', 'op', 'out'])
            if bad == 'threshold':
                call['threshold'] = -1
            elif bad == 'attr':
                call['l_attr'] = 'nope'
            elif bad == 'op':
                call['comp_op'] = '!='
            else:
                call['r_out_attrs'] = ['nope']
    elif r < 0.75:
        kind = rng.choice(T.FILTERS)
        if kind == 'OverlapFilter':
            f = {'kind': kind, 'overlap_size': rng.choice([1, 2]), 'comp_op': rng.choice(['>=', '>', '=']),
                 'allow_missing': rng.random() < 0.3}
            step['tok'] = rng.choice(['S', 'B', 'QS'])
        else:
            m = rng.choice(['JACCARD', 'COSINE', 'DICE', 'OVERLAP', 'EDIT_DISTANCE'])
            f = {'kind': kind, 'measure': m, 'allow_empty': rng.random() < 0.6,
                 'allow_missing': rng.random() < 0.3, 'measure_spelling': gen.spell(rng, m)}
            if m == 'OVERLAP':
                f['threshold'] = rng.choice([1, 2, 1.5])
            elif m == 'EDIT_DISTANCE':
                f['threshold'] = rng.choice([0, 1, 2, 1.5, 0.5])
            else:
                f['threshold'] = gen.random_threshold(rng)
            step['tok'] = rng.choice(['QB', 'QS']) if m == 'EDIT_DISTANCE' else rng.choice(['S', 'B', 'QB', 'QS', 'QU'])
        prev = pool.setdefault('_filters', [])
        if prev and rng.random() < 0.5:
            f, step['tok'] = rng.choice(prev)
        else:
            prev.append((f, step['tok']))
        which = rng.choice(['filter_tables', 'filter_tables', 'filter_pair', 'filter_candset'])
        call = dict(base, api=which, filter=f)
        if which == 'filter_pair':
            call['lstring'] = rng.choice(L['data']['lattr'] or ['a'])
            call['rstring'] = rng.choice(R['data']['rattr'] or ['a'])
        elif which == 'filter_candset':
            call['candset'] = gen.random_candset(rng, L, R, 'lid', 'rid', size=rng.choice([0, 2, 6, 15]))
            call['c_l_key'], call['c_r_key'] = 'l_lid', 'r_rid'
    elif r < 0.88:
        call = dict(base, api='apply_matcher', sim=rng.choice(['JACCARD', 'OVERLAP', 'user_bound']),
                    threshold=rng.choice([0, 0.3, 0.5, 1]),
                    comp_op=rng.choice(['>=', '>', '<=', '<', '=', '!=']),
                    allow_missing=rng.random() < 0.3, out_sim_score=rng.random() < 0.8)
        call['candset'] = gen.random_candset(rng, L, R, 'lid', 'rid', size=rng.choice([0, 2, 6, 15, 30]))
        call['c_l_key'], call['c_r_key'] = 'l_lid', 'r_rid'
        if rng.random() < 0.15:
            # a hand-made candidate set: the pair-id column is not called _id
            cs = call['candset']
            cs['cols'] = ['pair_id' if c == '_id' else c for c in cs['cols']]
            cs['data']['pair_id'] = cs['data'].pop('_id')
            if '_id' in cs.get('dtypes', {}):
                cs['dtypes']['pair_id'] = cs['dtypes'].pop('_id')
        step['tok'] = rng.choice(['S', 'B', 'QB', 'QS', 'QU'])
    elif r < 0.94:
        side = rng.choice('lr')
        tbl = L if side == 'l' else R
        call = {'api': 'profile', 'ltable': tbl,
                'profile_attrs': rng.choice([None, [side + 'attr'], [side + 'id', side + 'attr'], '__columns__'])}
        if call['profile_attrs'] is None and rng.random() < 0.6:
            del call['profile_attrs']          # omit the argument
        step['tables'] = {'ltable': (side, li if side == 'l' else ri)}
    else:
        side = rng.choice('lr')
        tbl = L if side == 'l' else R
        numeric = [c for c in tbl['cols'] if str(tbl['dtypes'].get(c)).startswith(('int', 'float'))]
        col = rng.choice(numeric + [side + 'attr'])
        if rng.random() < 0.5:
            call = {'api': 'dataframe_column_to_str', 'ltable': tbl, 'col': col, 'inplace': False,
                    'return_col': rng.random() < 0.5}
        else:
            call = {'api': 'series_to_str', 'ltable': tbl, 'col': col, 'inplace': False}
        step['tables'] = {'ltable': (side, li if side == 'l' else ri)}
    if rng.random() < 0.1 and call['api'] not in ('filter_pair', 'profile', 'dataframe_column_to_str', 'series_to_str'):
        call['show_progress'] = True
    step['call'] = call
    return step


DEEP = {'budget': 0, 'batteries': 0}


def state_change_battery(ssj, rec, case, iso_call, where):
    """The call just made changed module-level state of the library.  Whether that matters is decided
    on variants of that very call (other operators, thresholds with and without a fractional part):
    each is run here, in the process whose state changed, and in a process of its own."""
    api = iso_call.get('api')
    variants = []
    if api == 'edit_distance_join':
        grid = [(op, t) for t in (0.5, 1.5, 2.5, 1, 2) for op in ('=', '<', '<=')]
    elif api == 'overlap_join':
        grid = [(op, t) for t in (1, 1.5, 2) for op in ('>=', '>', '=')]
    elif api in T.JOINS:
        grid = [(op, t) for t in (iso_call.get('threshold'), 0.5, 1.0, 0.3333) for op in ('>=', '>', '=')]
    elif api == 'apply_matcher':
        grid = [(op, t) for t in (iso_call.get('threshold'), 0.5) for op in ('>=', '>', '<=', '<', '=', '!=')]
    else:
        grid = [(None, None)]
    for op, t in grid[:15]:
        c = copy.deepcopy(iso_call)
        if op is not None:
            c['comp_op'], c['threshold'] = op, t
        variants.append(c)
    for c in variants:
        try:
            here = repr(result_digest(T.exec_call(ssj, copy.deepcopy(c))))
        except Exception as e:
            here = 'raised %s' % type(e).__name__
        fresh = fresh_process_digest(c)
        if fresh is None:
            rec.count('fresh_process_runs_failed')
            continue
        rec.count('fresh_process_comparisons')
        rec.count('state_change_battery_calls')
        there = fresh.get('digest') if fresh.get('raised') is None else 'raised %s' % fresh['raised'].split(':')[0]
        if here != there:
            rec.violation('history_dependence', where + 'changed module-level state of the library (%s); '
                          'afterwards %s(comp_op=%r, threshold=%r) on fresh tables gives another result in '
                          'this process than in a process of its own'
                          % (sorted(rec.sets.get('library_module_state_changed', []))[:2], api,
                             c.get('comp_op'), c.get('threshold')), case=case)
            break


def fresh_process_digest(iso_call):
    import json
    import subprocess
    import tempfile
    fd, path = tempfile.mkstemp(prefix='rv_iso_', suffix='.json', dir=os.environ.get('VERIF_WORK') or None)
    try:
        with os.fdopen(fd, 'w') as f:
            json.dump({'call': T.jsonable(iso_call)}, f, allow_nan=True)
        p = subprocess.run([sys.executable, '-m', 'rv.isolated', path], stdout=subprocess.PIPE,
                           stderr=subprocess.DEVNULL, timeout=300, env=env.child_env(),
                           cwd=env.VERIF_DIR)
        for line in p.stdout.decode('utf8', 'replace').split('\n'):
            if line.startswith('RV-ISOLATED '):
                return json.loads(line[len('RV-ISOLATED '):])
    except Exception:
        return None
    finally:
        try:
            os.unlink(path)
        except OSError:
            pass
    return None


def result_digest(res):
    import pandas as pd
    if isinstance(res, pd.DataFrame):
        return ('df', tuple(map(str, res.columns)), tuple(sorted(map(repr, model.canon_rows(res, drop=())))))
    if isinstance(res, pd.Series):
        return ('series', str(res.dtype), tuple(model.canon_cell(v) for v in res.tolist()))
    return ('value', repr(res))


def run_case(case, rec, ssj=None):
    ssj = ssj or env.load()
    rng = random.Random(case['seed'])
    pool = make_pool(rng)
    objs = {'l': [T.make_table(s) for s in pool['l']], 'r': [T.make_table(s) for s in pool['r']]}
    toks = {}
    for name, spec in TOKS.items():
        if name == 'D':
            continue
        toks[name] = T.make_tokenizer(spec, cls_override=monitors.traced_class)
    default_tok = monitors.trace_instance(ssj.edit_distance_join.__defaults__[-1])
    toks['D'] = default_tok
    nsteps = rng.randint(6, 16)
    flips_total, completed = 0, 0
    shared_filters = {}      # filter objects live across calls, as in user code
    filter_specs = {}
    for k in range(nsteps):
        step = random_step(rng, pool)
        call = step['call']
        api = call['api']
        shared = {}
        if 'tables' in step:
            side, idx = step['tables']['ltable']
            shared['ltable'] = objs[side][idx]
        else:
            shared['ltable'] = objs['l'][step['li']]
            shared['rtable'] = objs['r'][step['ri']]
        tokname = step.get('tok')
        if tokname:
            shared['tok'] = toks[tokname]
        if 'candset' in call:
            shared['candset'] = T.make_table(call['candset'])
        run_call = dict(call)
        if tokname == 'D':
            run_call['tok'] = None          # omit the argument: the shared default object is used
            shared.pop('tok')
        elif tokname:
            run_call['tok'] = TOKS[tokname]
        if 'filter' in call and tokname and tokname != 'D':
            fkey = (tokname, repr(sorted(call['filter'].items())))
            if fkey not in shared_filters and len(shared_filters) < 4 and rng.random() < 0.7:
                try:
                    shared_filters[fkey] = T.make_filter(ssj, call['filter'], toks[tokname])
                    filter_specs[fkey] = (call['filter'], tokname, filter_state(shared_filters[fkey]))
                except Exception:
                    pass
            if fkey in shared_filters:
                shared['filter'] = shared_filters[fkey]
                rec.count('calls_on_shared_filter_objects')
        snaps = dict((n, T.snapshot_df(o)) for n, o in shared.items() if n not in ('tok', 'filter'))
        # every other shared object must stay untouched too (a call must not reach beyond its arguments)
        all_before = [T.snapshot_df(o) for o in objs['l'] + objs['r']] if k % 4 == 0 else None
        tok_obj = toks.get(tokname) if tokname else None
        tok_before = T.tokenizer_state(tok_obj) if tok_obj is not None else None
        flips_before = len(monitors.tok_counts(tok_obj)[1]) if tok_obj is not None else 0
        raised = None
        gstate = monitors.global_state()
        mstate = monitors.library_module_state()
        try:
            res = T.exec_call(ssj, run_call, shared)
        except Exception as e:
            raised = e
        rec.count('calls')
        mafter = monitors.library_module_state()
        rec.count('library_module_states_compared')
        if mafter != mstate:
            # not a violation by itself; from now on calls are also compared with a fresh process
            changed = sorted(k for k in set(mafter) | set(mstate) if mafter.get(k) != mstate.get(k))
            rec.count('library_module_state_changes(not judged by itself)')
            rec.add('library_module_state_changed', tuple(changed[:3]))
            DEEP['budget'] = 40
            if DEEP['batteries'] < 2 and raised is None:
                DEEP['batteries'] += 1
                DEEP['pending'] = True
        gafter = monitors.global_state()
        rec.count('global_state_snapshots_compared')
        soft = ('random.state', 'np.random.state', 'environ')     # may be touched by joblib / pandas
        if any(gafter[x] != gstate.get(x) for x in soft):
            rec.count('global_state_soft_changes(rng/environ, not judged)')
        hard_before = dict((x, v) for x, v in gstate.items() if x not in soft)
        hard_after = dict((x, v) for x, v in gafter.items() if x not in soft)
        if hard_after != hard_before:
            diff = sorted(x for x in hard_after if hard_after[x] != hard_before.get(x))
            rec.violation('global_state', 'history seed=%d step %d/%d %s changed process-wide state that '
                          'later calls depend on: %s' % (case['seed'], k, nsteps, api, ', '.join(
                              '%s: %s -> %s' % (d, gstate.get(d), gafter[d]) for d in diff[:4])),
                          case=dict(case, step=k))
            # restore what can be restored so that the rest of the history is judged on its own
            for d in diff:
                if d.startswith('pd:'):
                    try:
                        import pandas as pd
                        pd.set_option(d[3:], eval(gstate[d]))
                    except Exception:
                        pass
        rec.add('api', api if 'filter' not in call else api + ':' + call['filter']['kind'])
        where = 'history seed=%d step %d/%d %s ' % (case['seed'], k, nsteps, api)
        # (i) inputs untouched
        for n, o in shared.items():
            if n in ('tok', 'filter'):
                continue
            after = T.snapshot_df(o)
            rec.count('snapshots_compared')
            if after != snaps[n]:
                diff = [key for key in after if after[key] != snaps[n][key]]
                rec.violation('input_mutated', where + 'modified its %s argument (%s changed)%s'
                              % (n, ', '.join(diff), ' [call raised %r]' % raised if raised else ''),
                              case=dict(case, step=k))
        if all_before is not None:
            if [T.snapshot_df(o) for o in objs['l'] + objs['r']] != all_before:
                rec.violation('input_mutated', where + 'modified a shared table it was not given',
                              case=dict(case, step=k))
        # (ii) tokenizer configuration restored on normal return
        if tok_obj is not None:
            flips = len(monitors.tok_counts(tok_obj)[1]) - flips_before
            flips_total += flips
            rec.count('flag_flips_observed', flips)
            if tokname == 'D':
                rec.count('calls_on_default_tokenizer')
            if raised is None:
                rec.count('tokenizer_states_compared')
                after = T.tokenizer_state(tok_obj)
                if after != tok_before:
                    rec.violation('tokenizer_changed', where + 'returned normally but left tokenizer %s '
                                  'changed: before %r after %r' % (tokname, tok_before, after),
                                  case=dict(case, step=k))
                    # restore so that the rest of the history is judged on its own
                    tok_obj.__dict__['return_set'] = (TOKS[tokname]['return_set'])
            else:
                # C15 decides rejected calls; keep the history meaningful
                if T.tokenizer_state(tok_obj) != tok_before:
                    rec.count('tokenizer_changed_by_raising_call')
                    tok_obj.__dict__['return_set'] = TOKS[tokname]['return_set']
        if raised is not None:
            rec.count('calls_raised_expected' if step.get('expect_reject') else 'calls_raised')
            if not step.get('expect_reject'):
                rec.add('raised', '%s %s: %s' % (api, type(raised).__name__, str(raised)[:60]))
            continue
        completed += 1
        # (iii) same call in isolation on fresh objects
        iso_call = copy.deepcopy(run_call)
        if tokname == 'D':
            iso_call['tok'] = dict(TOKS['D'])
        try:
            iso = T.exec_call(ssj, iso_call)
        except Exception as e:
            rec.violation('history_dependence', where + 'succeeded in the history but raised %r in '
                          'isolation' % (e,), case=dict(case, step=k))
            continue
        rec.count('isolated_comparisons')
        if DEEP.pop('pending', False):
            state_change_battery(ssj, rec, dict(case, step=k), iso_call, where)
        if DEEP['budget'] > 0:
            DEEP['budget'] -= 1
            fresh = fresh_process_digest(iso_call)
            if fresh is None:
                rec.count('fresh_process_runs_failed')
            else:
                rec.count('fresh_process_comparisons')
                if fresh.get('raised') is not None or fresh.get('digest') != repr(result_digest(res)):
                    rec.violation('history_dependence', where + 'result differs from the same call made in a '
                                  'fresh process (module-level state of the library had changed earlier in '
                                  'this process: %s): fresh process %s' % (
                                      sorted(rec.sets.get('library_module_state_changed', []))[:2],
                                      fresh.get('raised') or 'returned other rows'), case=dict(case, step=k))
        if result_digest(res) != result_digest(iso):
            rec.violation('history_dependence', where + 'result differs from the same call made in '
                          'isolation on fresh objects (history: %s rows, isolated: %s rows)'
                          % (getattr(res, 'shape', None), getattr(iso, 'shape', None)),
                          case=dict(case, step=k))
    # (iv) a filter object that served in the history decides pairs like a fresh one
    for fkey, flt in shared_filters.items():
        fspec, tokname, state0 = filter_specs[fkey]
        changed = filter_state(flt) != state0
        if changed:
            rec.count('filter_objects_whose_attributes_changed(not judged by itself)')
        filter_battery(ssj, rec, case, rng, flt, fspec, toks[tokname], 2500 if changed else 250)
    return {'flips': flips_total, 'completed': completed, 'steps': nsteps}


def filter_state(flt):
    return dict((k, repr(v)) for k, v in sorted(vars(flt).items()) if k != 'tokenizer')


def filter_battery(ssj, rec, case, rng, used, fspec, tok, n):
    """filter_pair of the used filter object against a freshly built one (same parameters, same
    tokenizer object) on n value pairs of 1-40 tokens with high overlap."""
    try:
        fresh = T.make_filter(ssj, fspec, tok)
    except Exception:
        return
    vocab = ['a%d' % i for i in range(rng.choice([12, 40]))]
    state = T.tokenizer_state(tok)
    for _ in range(n):
        k = rng.randint(1, 40)
        x = [rng.choice(vocab) for _ in range(k)]
        y = list(x)
        for _ in range(rng.randint(0, max(1, k // 2))):
            r = rng.random()
            if r < 0.4 and y:
                y[rng.randrange(len(y))] = rng.choice(vocab)
            elif r < 0.7 and y:
                del y[rng.randrange(len(y))]
            else:
                y.insert(rng.randint(0, len(y)), rng.choice(vocab))
        if rng.random() < 0.5:
            rng.shuffle(y)
        lv, rv = ' '.join(x), ' '.join(y)
        try:
            a, b = used.filter_pair(lv, rv), fresh.filter_pair(lv, rv)
        except Exception:
            rec.count('filter_battery_raised')
            continue
        rec.count('filter_battery_pairs')
        if bool(a) != bool(b):
            rec.violation('history_dependence', 'history seed=%d: the %s object used in the history '
                          'says filter_pair(%r, %r) = %r, a fresh one %r'
                          % (case['seed'], fspec, lv[:150], rv[:150], a, b), case=case)
            break
    if T.tokenizer_state(tok) != state:
        rec.violation('tokenizer_changed', 'history seed=%d: filter_pair of %s left the tokenizer changed'
                      % (case['seed'], fspec), case=case)


def run_shard(shard, rec):
    ssj = env.load()
    monitors.import_repo_modules()
    reach = monitors.Reach()
    reach.start()
    for i in range(shard['n']):
        case = {'gen': 'hist', 'seed': shard['seed'] * 100000 + i}
        st = run_case(case, rec, ssj)
        rec.case(sig=('hist', case['seed']), nontrivial=st['flips'] > 0 or st['completed'] >= 5)
        rec.count('histories')
        if i == 0:
            rng = random.Random(case['seed'])
            pool = make_pool(rng)
            rec.sample({'history_seed': case['seed'], 'steps': st['steps'],
                        'first_calls': [random_step(rng, pool)['call']['api'] for _ in range(5)],
                        'shared_tokenizers': TOKS}, limit=1)
    reach.stop()
    for k, v in reach.anchors(ANCHORS).items():
        rec.reach[k] = v


def finalize(agg, tier):
    c = agg['counters']
    if c.get('flag_flips_observed', 0) == 0:
        agg['inconclusive'].append('no tokenizer flag flip was observed: the set/bag switching '
                                   'mechanism never ran')
    if c.get('isolated_comparisons', 0) == 0:
        agg['inconclusive'].append('no call was compared with its isolated re-run')
    if c.get('calls_on_default_tokenizer', 0) == 0:
        agg['inconclusive'].append('the shared default tokenizer of edit_distance_join was never used')


def coverage_extra(agg, tier):
    c = agg['counters']
    return {'histories': c.get('histories', 0), 'calls': c.get('calls', 0),
            'flag_flips_observed': c.get('flag_flips_observed', 0),
            'calls_on_default_tokenizer': c.get('calls_on_default_tokenizer', 0),
            'snapshots_compared': c.get('snapshots_compared', 0),
            'isolated_comparisons': c.get('isolated_comparisons', 0),
            'calls_on_shared_filter_objects': c.get('calls_on_shared_filter_objects', 0),
            'used_vs_fresh_filter_pairs': c.get('filter_battery_pairs', 0)}
