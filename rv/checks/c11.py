"""C11 -- output tables have the documented columns and faithfully project source rows.

Deciding oracle (boundary): the result's columns equal the list computed by an independent
implementation of the documented rule; every projected cell equals the cell of that attribute in
the source row identified by the row's key (missing == missing), for rows produced by the normal,
empty-set and missing-value branches, for every join and every filter_tables."""
import decimal
import fractions
import random

from rv import env, gen, model, monitors, oracle
from rv import tables as T

PROPERTY = 'C11'
LEVEL = 'exploration'
RULE = ('cases = (join | filter_tables) x seeded tables with shuffled column order and extra int / '
        'float-with-NaN / bool / str / object columns (cells incl. Decimal, Fraction, tuples, bytes) x l_out_attrs/r_out_attrs in {None, [], [key], '
        '[join attr], duplicates, permutations, all} x prefixes (default, custom, equal when names '
        'are disjoint) x out_sim_score x n_jobs; tables are built so that the normal, empty-set and '
        'missing-value branches all produce rows. Non-trivial = at least one projected cell compared; '
        'distinct = case seed.')
ASSUMPTIONS = ['py_stringmatching tokenizers are trusted']
SHARD_TIMEOUT = {'quick': 600, 'thorough': 3600}

ENTRY = list(T.JOINS) + ['ft:' + f for f in T.FILTERS]

ANCHORS = {
    'helper.row_l_attrs': ('py_stringsimjoin/utils/generic_helper.py', r'output_row.append\(l_row\[l_attr_index\]\)'),
    'helper.row_r_attrs': ('py_stringsimjoin/utils/generic_helper.py', r'output_row.append\(r_row\[r_attr_index\]\)'),
    'helper.redundant': ('py_stringsimjoin/utils/generic_helper.py', r'if attr == key_attr or seen_attrs.get\(attr\) is not None'),
    'helper.project_skip_join': ('py_stringsimjoin/utils/generic_helper.py', r'if attr != join_attr'),
    'missing.with_attrs': ('py_stringsimjoin/utils/missing_value_handler.py', r'output_row = get_output_row_from_tables'),
}


def plan(tier, seed):
    n = 500 if tier == 'quick' else 6000
    return [{'name': 'pj_%d' % i, 'kind': 'pj', 'n': n, 'seed': seed * 1000 + 180 + i}
            for i in range(14)]


def make_tables(rng, qgram):
    out = []
    words = ['aa', 'bb', 'cc', 'dd']
    degenerate = rng.random()
    for side in 'lr':
        n = rng.randint(3, 8)
        if degenerate < 0.05 and side == rng.choice('lr'):
            n = 0                                   # a table without rows
        vals = []
        for i in range(n):
            r = rng.random()
            if i == 0:
                vals.append(None if rng.random() < 0.5 else gen.NAN)     # missing branch
            elif i == 1:
                vals.append('')                                           # empty branch (not padded q-gram)
            elif qgram:
                vals.append(''.join(rng.choice('ab') for _ in range(rng.randint(2, 5))))
            else:
                vals.append(' '.join(rng.choice(words) for _ in range(rng.randint(1, 3))))
        order = list(range(n))
        rng.shuffle(order)
        vals = [vals[i] for i in order]
        if 0.05 <= degenerate < 0.10 and side == 'l':
            vals = [None] * n                       # every join value missing on one side
        r = rng.random()
        if r < 0.45:
            keys = rng.sample(range(1000), n)
        elif r < 0.6:
            keys = [2 ** 53 + 1 + 2 * k for k in rng.sample(range(1000), n)]   # not representable as float64
        else:
            keys = ['%s%d' % (side, k) for k in rng.sample(range(100), n)]
        extras = {
            side + 'int': ([rng.choice([rng.randint(-9, 9), 2 ** 53 + 1, -(2 ** 60) - 1, 2 ** 62 + 3])
                            for _ in range(n)], 'int64'),
            side + 'flt': ([gen.NAN if rng.random() < 0.3 else rng.choice([0.5, 2.0, -1.25]) for _ in range(n)], 'float64'),
            side + 'bool': ([rng.random() < 0.5 for _ in range(n)], 'bool'),
            side + 'str': (['s%d' % rng.randint(0, 3) for _ in range(n)], 'str'),
            side + 'obj': ([None if rng.random() < 0.3 else rng.choice(['o1', 'o2', 7]) for _ in range(n)], 'object'),
            # attribute names that are substrings of the key attribute's name (lkey / rkey)
            'key': (['k%d' % rng.randint(0, 5) for _ in range(n)], 'object'),
            side + 'k': ([rng.randint(0, 3) for _ in range(n)], 'int64'),
            'e': (['e%d' % i for i in range(n)], 'object'),
            # twin labels: differ from side + 'str' only in case / surrounding blanks, yet other columns
            (side + 'str').upper(): (['U%d' % i for i in range(n)], 'object'),
            ' ' + side + 'str ': (['b%d' % i for i in range(n)], 'object'),
            # object cells that some constructors / helpers do not treat as opaque scalars: Decimal and
            # Fraction (not exactly representable as floats), tuples of length 0, 1 and 2, lists, bytes
            side + 'cell': ([rng.choice([decimal.Decimal('1.10'), decimal.Decimal('0.1'), fractions.Fraction(1, 3),
                                         ('x',), ('a', 'b'), (1, 2), (), None, fractions.Fraction(7, 2), b'by',
                                         frozenset(['q'])]) for _ in range(n)], 'object'),
            side + 'dec': ([rng.choice([decimal.Decimal('1.10'), decimal.Decimal('2.5'), decimal.Decimal('0.3'),
                                        fractions.Fraction(2, 3)]) for _ in range(n)], 'object'),
        }
        names = list(extras)
        rng.shuffle(names)
        names = names[:rng.randint(0, 6)]
        cols = [side + 'key', side + 'join'] + names
        rng.shuffle(cols)
        data = {side + 'key': keys, side + 'join': vals}
        dtypes = {side + 'join': 'str' if rng.random() < 0.25 else 'object'}
        for nme in names:
            data[nme] = extras[nme][0]
            dtypes[nme] = extras[nme][1]
        ik = rng.choice(['range', 'shuffled', 'str'])
        index = None if ik == 'range' else (rng.sample(range(100), n) if ik == 'shuffled' else
                                            ['i%d' % i for i in rng.sample(range(100), n)])
        out.append({'cols': cols, 'data': data, 'index': index, 'dtypes': dtypes})
    return out[0], out[1]


def pick_attrs(rng, spec, key, join):
    cols = list(spec['cols'])
    r = rng.random()
    if r < 0.15:
        return None
    if r < 0.25:
        return []
    if r < 0.32:
        return [key]
    if r < 0.40:
        return [join]
    if r < 0.50:
        return list(cols)
    if r < 0.60:
        c = list(cols)
        rng.shuffle(c)
        return c
    if r < 0.72:
        return [rng.choice(cols)]           # exactly one attribute
    if r < 0.80 and len(cols) >= 4:
        # a run of adjacent columns, its first and last column in place, the inner ones permuted
        k = rng.randint(4, len(cols))
        s0 = rng.randint(0, len(cols) - k)
        run = cols[s0:s0 + k]
        inner = run[1:-1]
        rng.shuffle(inner)
        return [run[0]] + inner + [run[-1]]
    sel = [rng.choice(cols) for _ in range(rng.randint(1, 6))]
    return sel


def make_call(rng, entry):
    ed = entry == 'edit_distance_join'
    if ed:
        tok = {'kind': 'qgram', 'q': rng.choice([2, 3]), 'padding': rng.random() < 0.5,
               'return_set': rng.random() < 0.5}
    else:
        tok = rng.choice([{'kind': 'ws'}, {'kind': 'qgram', 'q': 2, 'padding': False},
                          {'kind': 'delim', 'delims': [' ']}])
        tok = dict(tok, return_set=True)
    L, R = make_tables(rng, tok['kind'] == 'qgram')
    lj, rj = 'ljoin', 'rjoin'
    if rng.random() < 0.12:
        # join attributes named like names the library uses itself
        lj, rj = rng.choice([('index', 'index'), ('_id', '_sim_score'), ('level_0', '_id'), ('_sim_score', 'index')])
        for spec, old_, new_ in ((L, 'ljoin', lj), (R, 'rjoin', rj)):
            spec['cols'] = [new_ if c == old_ else c for c in spec['cols']]
            spec['data'][new_] = spec['data'].pop(old_)
            spec['dtypes'][new_] = spec['dtypes'].pop(old_)
    call = {'ltable': L, 'rtable': R, 'l_key': 'lkey', 'r_key': 'rkey', 'l_attr': lj,
            'r_attr': rj, 'tok': tok, 'n_jobs': rng.choice([1, 1, 2, 3]),
            'l_out_attrs': pick_attrs(rng, L, 'lkey', lj),
            'r_out_attrs': pick_attrs(rng, R, 'rkey', rj)}
    if rng.random() < 0.2:
        call['omit_defaults'] = True
    if rng.random() < 0.06:
        call['out_attrs_as'] = 'tuple'
    if lj == 'ljoin' and rng.random() < 0.06:
        # output labels that pandas / the library use themselves for other purposes: 'index' (what
        # reset_index() calls its column) and '_sim_score' (via prefix '_' + a column named 'sim_score')
        which = rng.choice(['index', 'sim_score'])
        for spec, side in ((L, 'l'), (R, 'r')):
            if which not in spec['cols']:
                spec['cols'] = spec['cols'] + [which]
                spec['data'][which] = ['%s%s%d' % (side, which[0], i) for i in range(T.spec_len(spec))]
                spec['dtypes'][which] = 'object'
        side = rng.choice(['l', 'r'])
        call[side + '_out_attrs'] = [which] + [a for a in (call[side + '_out_attrs'] or []) if a != which][:2]
        call[side + '_out_prefix'] = '' if which == 'index' else '_'
        call[('r' if side == 'l' else 'l') + '_out_prefix'] = 'o_'
        call['internal_label'] = which
    r = rng.random()
    if lj != 'ljoin' or call.get('internal_label'):
        r = 2.0 if call.get('internal_label') else r
    if call.get('internal_label'):
        pass
    elif lj != 'ljoin':
        # an empty prefix would ask for an output column named exactly like the library's own
        # '_id' / '_sim_score': a name collision the caller requested, not a result to judge
        r = 1.0 if r < 0.35 and rng.random() < 0.5 else r + 1.0
        if r == 1.0:
            call['l_out_prefix'], call['r_out_prefix'] = rng.choice([('left.', 'right.'), ('A_', 'B_'), ('x', 'xx')])
    if r < 0.25:
        call['l_out_prefix'], call['r_out_prefix'] = rng.choice([('left.', 'right.'), ('A_', 'B_'), ('', 'r_'), ('x', 'xx'), ('l_', 'l_r_'), ('l%%', 'r%s_'), ('50%_', '{}_'), ('%(l)s', '{0}')])
    elif r < 0.35:
        call['l_out_prefix'] = call['r_out_prefix'] = rng.choice(['', 't_'])   # names are disjoint
    if rng.random() < 0.15 and lj == 'ljoin' and not call.get('internal_label'):
        # both tables use the SAME column names for their attributes; the left key's name is an
        # ordinary attribute of the right table and vice versa; one list object is passed for both
        # l_out_attrs and r_out_attrs (as user code with a shared constant does)
        n_r = T.spec_len(R)
        R2 = {'cols': ['rkey', 'rjoin', 'lkey', 'shared'], 'index': R['index'],
              'data': {'rkey': R['data']['rkey'], 'rjoin': R['data']['rjoin'],
                       'lkey': ['plain%d' % i for i in range(n_r)],
                       'shared': ['rs%d' % i for i in range(n_r)]},
              'dtypes': {'rjoin': R['dtypes']['rjoin'], 'lkey': 'object', 'shared': 'object'}}
        n_l = T.spec_len(L)
        L2 = {'cols': ['lkey', 'ljoin', 'rkey', 'shared'], 'index': L['index'],
              'data': {'lkey': L['data']['lkey'], 'ljoin': L['data']['ljoin'],
                       'rkey': ['lplain%d' % i for i in range(n_l)],
                       'shared': ['ls%d' % i for i in range(n_l)]},
              'dtypes': {'ljoin': L['dtypes']['ljoin'], 'rkey': 'object', 'shared': 'object'}}
        call['ltable'], call['rtable'] = L2, R2
        shared = rng.choice([['lkey', 'rkey', 'shared'], ['shared', 'rkey', 'lkey', 'shared'], ['rkey', 'lkey']])
        call['l_out_attrs'] = list(shared)
        call['r_out_attrs'] = list(shared)
        call['same_out_list'] = True
    if rng.random() < 0.7 or entry in T.JOINS:
        if rng.random() < 0.8:
            call['out_sim_score'] = rng.random() < 0.6
    else:
        if rng.random() < 0.5:
            call['out_sim_score'] = rng.random() < 0.5
    if rng.random() < 0.1:
        call['show_progress'] = True
    if entry in T.JOINS:
        call['api'] = entry
        call['allow_missing'] = rng.random() < 0.8
        if entry == 'overlap_join':
            call['threshold'] = 1
        elif ed:
            call['threshold'] = rng.choice([1, 2, 3])
        else:
            call['threshold'] = rng.choice([0.1, 0.3, 0.5])
            call['allow_empty'] = rng.random() < 0.8
        score_default, has_score = True, True
    else:
        kind = entry[3:]
        call['api'] = 'filter_tables'
        if kind == 'OverlapFilter':
            call['filter'] = {'kind': kind, 'overlap_size': 1, 'comp_op': '>=',
                              'allow_missing': rng.random() < 0.8}
            score_default, has_score = False, True
        else:
            m = rng.choice(['JACCARD', 'COSINE', 'DICE', 'OVERLAP'])
            call['filter'] = {'kind': kind, 'measure': m, 'threshold': 1 if m == 'OVERLAP' else 0.2,
                              'allow_empty': rng.random() < 0.8, 'allow_missing': rng.random() < 0.8}
            score_default, has_score = False, False
            call.pop('out_sim_score', None)
    return call, score_default, has_score


def run_case(case, rec, ssj=None):
    ssj = ssj or env.load()
    rng = random.Random(case['seed'])
    entry = case['entry']
    call, score_default, has_score = make_call(rng, entry)
    tag = '%s l_out=%r r_out=%r ' % (entry, call['l_out_attrs'], call['r_out_attrs'])
    try:
        df = T.exec_call(ssj, call)
    except Exception as e:
        rec.count('calls_raised')
        rec.add('raised', '%s %s: %s' % (entry, type(e).__name__, str(e)[:80]))
        return {'cells': 0, 'call': call}
    exp_cols = oracle.expected_columns(call, score_default=score_default, has_score_option=has_score)
    if list(df.columns) != exp_cols:
        rec.violation('columns', tag + 'prefixes=(%r,%r) out_sim_score=%r: columns %r, expected %r'
                      % (call.get('l_out_prefix', 'l_'), call.get('r_out_prefix', 'r_'),
                         call.get('out_sim_score', 'default'), list(df.columns), exp_cols), case=case)
        return {'cells': 0, 'call': call}
    rec.count('column_lists_checked')
    L, R = call['ltable'], call['rtable']
    lrow = dict((model.canon_cell(k), i) for i, k in enumerate(L['data']['lkey']))
    rrow = dict((model.canon_cell(k), i) for i, k in enumerate(R['data']['rkey']))

    def dedup(attrs, key):
        out = []
        for a in attrs or []:
            if a != key and a not in out:
                out.append(a)
        return out
    lo, ro = dedup(call['l_out_attrs'], 'lkey'), dedup(call['r_out_attrs'], 'rkey')
    cells = 0
    view = oracle.TableView(call, bag=False)
    for row in df.itertuples(index=False, name=None):
        lk, rk = model.canon_cell(row[1]), model.canon_cell(row[2])
        if lk not in lrow or rk not in rrow:
            rec.violation('keys', tag + 'row names unknown keys (%r, %r)' % (lk, rk), case=case)
            continue
        i, j = lrow[lk], rrow[rk]
        if view.lmiss[i] or view.rmiss[j]:
            branch = 'missing'
        elif len(view.ltoks[i]) == 0 and len(view.rtoks[j]) == 0:
            branch = 'empty'
        else:
            branch = 'normal'
        pos = 3
        for a in lo:
            exp = model.canon_cell(L['data'][a][i])
            got = model.canon_cell(row[pos])
            cells += 1
            rec.count('cells_' + branch)
            if got != exp:
                rec.violation('cell', tag + '[%s branch] row (%r, %r): column %r holds %r, source row '
                              'has %r' % (branch, lk, rk, exp_cols[pos], got, exp), case=case)
            pos += 1
        for a in ro:
            exp = model.canon_cell(R['data'][a][j])
            got = model.canon_cell(row[pos])
            cells += 1
            rec.count('cells_' + branch)
            if got != exp:
                rec.violation('cell', tag + '[%s branch] row (%r, %r): column %r holds %r, source row '
                              'has %r' % (branch, lk, rk, exp_cols[pos], got, exp), case=case)
            pos += 1
        rec.count('rows_' + branch)
    oracle.check_ids(df, rec, case=case, tag=tag)
    return {'cells': cells, 'call': call}


def run_shard(shard, rec):
    ssj = env.load()
    monitors.import_repo_modules()
    reach = monitors.Reach()
    reach.start()
    for i in range(shard['n']):
        entry = ENTRY[i % len(ENTRY)]
        case = {'gen': 'pj', 'entry': entry, 'seed': shard['seed'] * 100000 + i}
        st = run_case(case, rec, ssj)
        rec.case(sig=('pj', entry, case['seed']), nontrivial=st['cells'] > 0)
        c = st['call']
        rec.add('projection_shape', (entry, c['l_out_attrs'] is None, c['r_out_attrs'] is None,
                                     len(c['l_out_attrs'] or []), len(c['r_out_attrs'] or [])))
        if i == 1:
            rec.sample({'entry': entry, 'left_columns': c['ltable']['cols'],
                        'l_out_attrs': c['l_out_attrs'], 'r_out_attrs': c['r_out_attrs'],
                        'prefixes': [c.get('l_out_prefix', 'l_'), c.get('r_out_prefix', 'r_')],
                        'out_sim_score': c.get('out_sim_score', 'default')}, limit=1)
    reach.stop()
    for k, v in reach.anchors(ANCHORS).items():
        rec.reach[k] = v


def finalize(agg, tier):
    c = agg['counters']
    for b in ('normal', 'empty', 'missing'):
        if c.get('cells_' + b, 0) == 0:
            agg['inconclusive'].append('no projected cell of the %s branch was compared' % b)
    if c.get('column_lists_checked', 0) == 0:
        agg['inconclusive'].append('no column list was checked')


def coverage_extra(agg, tier):
    c = agg['counters']
    return {'cells_compared': dict((b, c.get('cells_' + b, 0)) for b in ('normal', 'empty', 'missing')),
            'column_lists_checked': c.get('column_lists_checked', 0),
            'distinct_projection_shapes': len(agg['sets'].get('projection_shape', ()))}
