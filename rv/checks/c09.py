"""C09 -- empty token sets are admitted iff allow_empty, independent of threshold.

Deciding oracle (boundary): for tables rich in values that tokenize to nothing, a both-empty pair is
in the result of jaccard/cosine/dice/overlap-coefficient joins (score 1.0) and survives
Size/Prefix/Position/Suffix filters under JACCARD/COSINE/DICE (filter_pair, filter_tables,
filter_candset) iff allow_empty, whatever threshold/operator/n_jobs; never under overlap_join /
OVERLAP; a pair with exactly one empty side is never returned by a set-similarity join."""
import random

from rv import env, gen, model, monitors, oracle
from rv import tables as T

PROPERTY = 'C09'
LEVEL = 'exploration'
RULE = ('cases = (entry point, measure, threshold incl. 1.0, operator, allow_empty, n_jobs) on seeded '
        'tables in which 30-60% of the values tokenize to nothing ("" / blanks / delimiter-only / '
        'shorter than an unpadded q / non-alphabetic under the alphabetic tokenizer) on both sides. '
        'Non-trivial = the table pair has at least one both-empty pair; distinct = case seed.')
ASSUMPTIONS = ['py_stringmatching tokenizers are trusted (fresh instance decides what is empty)']
SHARD_TIMEOUT = {'quick': 600, 'thorough': 3600}

RATIO_JOINS = ('jaccard_join', 'cosine_join', 'dice_join', 'overlap_coefficient_join')
SAFE_FILTERS = ('SizeFilter', 'PrefixFilter', 'PositionFilter', 'SuffixFilter')

ANCHORS = {
    'set_sim_join.empty': ('py_stringsimjoin/join/set_sim_join.py', r'if allow_empty and len\(r_ordered_tokens\) == 0'),
    'oc_join.empty': ('py_stringsimjoin/join/overlap_coefficient_join_py.py', r'if allow_empty and r_num_tokens == 0'),
    'size.handle_empty': ('py_stringsimjoin/filter/size_filter.py', r'if handle_empty and r_num_tokens == 0'),
    'prefix.handle_empty': ('py_stringsimjoin/filter/prefix_filter.py', r'if handle_empty and len\(r_ordered_tokens\) == 0'),
    'position.handle_empty': ('py_stringsimjoin/filter/position_filter.py', r'if handle_empty and len\(r_ordered_tokens\) == 0'),
    'suffix.handle_empty': ('py_stringsimjoin/filter/suffix_filter.py', r'if handle_empty and l_num_tokens == 0 and r_num_tokens == 0'),
    'position_index.empty_records': ('py_stringsimjoin/index/position_index.py', r'empty_records.append\(row_id\)'),
}


def plan(tier, seed):
    n = 1500 if tier == 'quick' else 12000
    return [{'name': 'em_%d' % i, 'kind': 'em', 'n': n, 'seed': seed * 1000 + 140 + i}
            for i in range(14)]


def empty_value(rng, tok):
    kind = tok['kind']
    if kind == 'ws':
        return rng.choice(['', ' ', '   ', '\t', ' \t '])
    if kind == 'delim':
        d = tok.get('delims', [' '])
        return rng.choice(['', d[0], d[0] * 3, ''.join(d)])
    if kind == 'alpha':
        return rng.choice(['', '123', '4 5 6', '...', ' ', '9-9'])
    if kind == 'alnum':
        return rng.choice(['', '...', ' - ', '!!', ' '])
    q = tok.get('q', 2)
    if tok.get('padding', True):
        return '' if q == 1 else None       # padded q>=2 never tokenizes to nothing
    return rng.choice(['', 'a', 'ab', 'abc'][:q])


def make_tables(rng, tok):
    vocab = ['a', 'b', 'c', 'dd', 'e1']
    sep = {'ws': ' ', 'delim': tok.get('delims', [' '])[0], 'alpha': ' ', 'alnum': ' '}.get(tok['kind'])
    out = []
    for side in 'lr':
        n = rng.randint(1, 9)
        vals = []
        for _ in range(n):
            r = rng.random()
            ev = empty_value(rng, tok)
            if r < 0.45 and ev is not None:
                vals.append(ev)
            elif r < 0.52:
                vals.append(None if rng.random() < 0.5 else gen.NAN)
            elif sep is not None:
                vals.append(sep.join(rng.choice(vocab) for _ in range(rng.randint(1, 4))))
            else:
                vals.append(''.join(rng.choice('ab') for _ in range(rng.randint(tok.get('q', 2), 6))))
        keys = rng.sample(range(100), n)
        out.append({'cols': [side + 'id', side + 'attr', side + 'x'],
                    'data': {side + 'id': keys, side + 'attr': vals, side + 'x': ['x%d' % k for k in keys]},
                    'index': None, 'dtypes': {side + 'attr': 'str' if rng.random() < 0.2 else 'object',
                                              side + 'x': 'object'}})
    return out[0], out[1]


def random_t(rng):
    return rng.choice([1.0, 1.0, 0.5, 0.9999, 1e-6, gen.random_threshold(rng)])


def run_case(case, rec, ssj=None):
    ssj = ssj or env.load()
    rng = random.Random(case['seed'])
    tok = gen.random_tokenizer(rng)
    if rng.random() < 0.05:
        # a user tokenizer that hands out immutable tuples (joins and filters only measure and
        # intersect the token containers; py_stringmatching's measures would insist on lists)
        tok = {'kind': 'ws', 'user': 'tuple', 'return_set': rng.random() < 0.6}
    L, R = make_tables(rng, tok)
    allow_empty = rng.random() < 0.5
    entry = rng.choice(['join', 'join', 'ft', 'pair', 'candset'])
    lkey, rkey = 'lid', 'rid'
    if rng.random() < 0.12:
        # an asymmetric schema: ONE table is keyed by its join column (unique, nothing missing; a single
        # empty value is a perfectly good key), the other has a key column of its own (string ids half
        # of the time)
        side = rng.choice('lr')
        spec = L if side == 'l' else R
        seen, vals = set(), []
        for i, v in enumerate(spec['data'][side + 'attr']):
            if model.is_missing(v) or v in seen:
                v = 'u%d a' % i if tok['kind'] != 'qgram' else 'ab' * 2 + 'abab'[:i % 4] + 'b' * (i // 4)
                if v in seen:
                    v = v + 'a' * (i + 1)
            seen.add(v)
            vals.append(v)
        spec['data'][side + 'attr'] = vals
        if side == 'l':
            lkey = 'lattr'
        else:
            rkey = 'rattr'
        other = R if side == 'l' else L
        oside = 'r' if side == 'l' else 'l'
        if rng.random() < 0.5:
            other['data'][oside + 'id'] = ['K%s' % k for k in other['data'][oside + 'id']]
            other['dtypes'][oside + 'id'] = 'object'
        rec.count('asymmetric_schema_cases')
    base = {'ltable': L, 'rtable': R, 'l_key': lkey, 'r_key': rkey, 'l_attr': 'lattr',
            'r_attr': 'rattr', 'tok': tok, 'n_jobs': rng.choice([1, 2, 3, 4, 20])}
    if rng.random() < 0.1:
        base['show_progress'] = True
    view = oracle.TableView(dict(base))
    le, re_ = view.empties()
    both = set((i, j) for i in le for j in re_)
    info = {'both_empty': len(both), 'entry': entry}
    rec.count('both_empty_pairs', len(both))
    if entry == 'join':
        api = rng.choice(RATIO_JOINS + ('overlap_join',))
        call = dict(base, api=api, comp_op=rng.choice(['>=', '>', '=']), allow_empty=allow_empty,
                    allow_missing=rng.random() < 0.2, out_sim_score=rng.random() < 0.8,
                    l_out_attrs=rng.choice([None, ['lx'], ['lattr']]),
                    r_out_attrs=rng.choice([None, ['rx']]))
        call['threshold'] = rng.choice([1, 2]) if api == 'overlap_join' else random_t(rng)
        info['api'] = api
        try:
            df = T.exec_call(ssj, call)
        except Exception as e:
            rec.count('calls_raised')
            rec.add('raised', '%s: %s' % (type(e).__name__, str(e)[:80]))
            return info
        measure = T.JOIN_MEASURE[api]
        oracle.check_set_join(df, call, measure, rec, {'empty'}, view=view, case=case,
                              tag='%s(%s %r, allow_empty=%r, n_jobs=%r) ' % (
                                  api, call['comp_op'], call['threshold'], allow_empty, call['n_jobs']))
        # exactly one empty side
        for (i, j, s, lk, rk) in oracle.result_pairs(df, call, view):
            if i is None or j is None or view.lmiss[i] or view.rmiss[j]:
                continue
            a, b = len(view.ltoks[i]), len(view.rtoks[j])
            if (a == 0) != (b == 0):
                rec.violation('one_empty', '%s returned pair (%r, %r) with exactly one empty side: '
                              'l=%r r=%r' % (api, lk, rk, view.lvals[i], view.rvals[j]), case=case)
        rec.count('join_rows', len(df))
        return info
    measure = rng.choice(['JACCARD', 'COSINE', 'DICE', 'OVERLAP'])
    kind = rng.choice(SAFE_FILTERS)
    fspec = {'kind': kind, 'measure': measure, 'allow_empty': allow_empty,
             'threshold': rng.choice([1, 2]) if measure == 'OVERLAP' else random_t(rng)}
    fspec['measure_spelling'] = gen.spell(rng, measure)
    want = allow_empty and measure != 'OVERLAP'
    info['api'] = '%s/%s/%s' % (entry, kind, measure)
    tag = '%s(%s,%r,allow_empty=%r) ' % (kind, measure, fspec['threshold'], allow_empty)
    tk = T.make_tokenizer(tok)
    try:
        flt = T.make_filter(ssj, fspec, tk)
    except Exception as e:
        rec.count('calls_raised')
        return info
    if entry == 'pair':
        for (i, j) in sorted(both)[:12]:
            rec.count('filter_pair_calls')
            d = flt.filter_pair(view.lvals[i], view.rvals[j])
            if bool(d) == want:
                rec.violation('pair', tag + 'filter_pair(%r, %r) returned dropped=%r for a both-empty '
                              'pair' % (view.lvals[i], view.rvals[j], d), case=case)
        return info
    if entry == 'ft':
        call = dict(base, api='filter_tables', filter=fspec)
        try:
            df = T.exec_call(ssj, call, {'tok': tk, 'filter': flt})
        except Exception as e:
            rec.count('calls_raised')
            rec.add('raised', '%s: %s' % (type(e).__name__, str(e)[:80]))
            return info
        got = set((i, j) for (i, j, s, lk, rk) in oracle.result_pairs(df, call, view))
        rec.count('filter_tables_calls')
        for (i, j) in both:
            if ((i, j) in got) != want:
                rec.violation('tables', tag + 'filter_tables(n_jobs=%r) %s both-empty pair (%r, %r)'
                              % (call['n_jobs'], 'lists' if (i, j) in got else 'does not list',
                                 view.lkeys[i], view.rkeys[j]), case=case)
        return info
    pairs = sorted(both)[:20]
    if not pairs:
        return info
    lkeys, rkeys = T.column(L, base['l_key']), T.column(R, base['r_key'])
    cs = T.table_spec(['_id', 'l_' + base['l_key'], 'r_' + base['r_key']],
                      [[n, lkeys[i], rkeys[j]] for n, (i, j) in enumerate(pairs)])
    call = dict(base, api='filter_candset', filter=fspec, candset=cs, c_l_key='l_' + base['l_key'],
                c_r_key='r_' + base['r_key'])
    try:
        out = T.exec_call(ssj, call, {'tok': tk, 'filter': flt})
    except Exception as e:
        rec.count('calls_raised')
        rec.add('raised', '%s: %s' % (type(e).__name__, str(e)[:80]))
        return info
    rec.count('filter_candset_calls')
    kept = set(out['_id'].tolist())
    for n in range(len(pairs)):
        if (n in kept) != want:
            rec.violation('candset', tag + 'filter_candset(n_jobs=%r) %s both-empty pair %r'
                          % (call['n_jobs'], 'keeps' if n in kept else 'drops', pairs[n]), case=case)
    return info


def run_shard(shard, rec):
    ssj = env.load()
    monitors.import_repo_modules()
    reach = monitors.Reach()
    reach.start()
    for i in range(shard['n']):
        case = {'gen': 'em', 'seed': shard['seed'] * 100000 + i}
        info = run_case(case, rec, ssj)
        rec.case(sig=('em', case['seed']), nontrivial=info['both_empty'] > 0)
        rec.add('entry', info.get('api'))
        if i == 0:
            rng = random.Random(case['seed'])
            tok = gen.random_tokenizer(rng)
            L, R = make_tables(rng, tok)
            rec.sample({'tok': tok, 'left_values': L['data']['lattr'], 'right_values': R['data']['rattr'],
                        'entry': info.get('api')}, limit=1)
    reach.stop()
    for k, v in reach.anchors(ANCHORS).items():
        rec.reach[k] = v


def finalize(agg, tier):
    c = agg['counters']
    if c.get('both_empty_pairs', 0) == 0:
        agg['inconclusive'].append('no both-empty pair occurred in any case')
    for k in ('join_rows', 'filter_tables_calls', 'filter_pair_calls', 'filter_candset_calls'):
        if c.get(k, 0) == 0:
            agg['inconclusive'].append('%s == 0' % k)


def coverage_extra(agg, tier):
    c = agg['counters']
    return {'both_empty_pairs_checked': c.get('both_empty_pairs', 0),
            'entry_points_seen': len(agg['sets'].get('entry', ()))}
