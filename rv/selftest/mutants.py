"""Self-validation of the monitors: apply realistic single-site (or two-site) breaking patches to a
scratch copy of the tree (outside /repo and /verif, removed afterwards), run the named checks with
VERIF_REPO pointing at the copy, and report which checks fire.

  python -m rv.selftest.mutants [--only NAME-SUBSTRING] [--props C01,C04] [--tier quick] [--baseline]

'silent' mutants are semantically neutral patches that must NOT raise an alarm.
"""
import argparse
import json
import os
import shutil
import subprocess
import sys
import tempfile
import time

VERIF = os.path.dirname(os.path.dirname(os.path.dirname(os.path.abspath(__file__))))
P = 'py_stringsimjoin/'

# (name, [(file, old, new), ...], [properties expected to fire], note)
MUTANTS = [
    ('prefix_jaccard_no_plus1', [(P + 'filter/filter_utils.py',
      "return int(num_tokens - ceil(round(threshold * num_tokens, 4)) + 1)",
      "return int(num_tokens - ceil(round(threshold * num_tokens, 4)))")], ['C01', 'C04'], ''),
    ('prefix_no_slack', [(P + 'filter/filter_utils.py',
      "return int(num_tokens - ceil(round(threshold * num_tokens, 4)) + 1)",
      "return int(num_tokens - ceil(threshold * num_tokens) + 1)")], ['C01', 'C04'], 'reverts F1'),
    ('size_lower_no_slack', [(P + 'filter/filter_utils.py',
      "return int(ceil(round(threshold * num_tokens, 4)))",
      "return int(ceil(threshold * num_tokens))")], ['C01', 'C04'], ''),
    ('size_upper_floor_minus', [(P + 'filter/filter_utils.py',
      "return int(floor(round(num_tokens / threshold, 4)))",
      "return int(floor(num_tokens / threshold - 1e-9))")], ['C01', 'C04'], ''),
    ('overlap_threshold_plus1', [(P + 'filter/filter_utils.py',
      "return ceil(round((threshold / (1 + threshold)) * \n                          (l_num_tokens + r_num_tokens), 4))",
      "return ceil(round((threshold / (1 + threshold)) * \n                          (l_num_tokens + r_num_tokens), 4)) + 1")], ['C01', 'C04'], ''),
    ('position_ge_to_gt', [(P + 'filter/position_filter.py',
      "if (current_overlap + overlap_upper_bound >=\n                                overlap_threshold_cache[cand_num_tokens]):",
      "if (current_overlap + overlap_upper_bound >\n                                overlap_threshold_cache[cand_num_tokens]):")], ['C01', 'C04'], ''),
    ('order_no_sort', [(P + 'utils/token_ordering.py',
      "    ordered_tokens.sort()\n", "")], ['C01', 'C04'], ''),
    ('score_round3', [(P + 'join/set_sim_join.py',
      "sim_score = round(sim_fn(l_ordered_tokens, r_ordered_tokens), 4)",
      "sim_score = round(sim_fn(l_ordered_tokens, r_ordered_tokens), 3)")], ['C02'], ''),
    ('set_sim_join_op_ignored', [(P + 'join/set_sim_join.py',
      "comp_fn = COMP_OP_MAP[comp_op]", "comp_fn = COMP_OP_MAP['>=']")], ['C02', 'C13'], ''),
    ('token_order_desc', [(P + 'utils/token_ordering.py',
      "    for token_freq_tuple in sorted(ordered_tokens, key=itemgetter(1)):\n        token_ordering[token_freq_tuple[0]] = order_idx\n        order_idx += 1\n\n    return token_ordering\n\n\ndef order_using",
      "    for token_freq_tuple in sorted(ordered_tokens, key=itemgetter(1), reverse=True):\n        token_ordering[token_freq_tuple[0]] = order_idx\n        order_idx += 1\n\n    return token_ordering\n\n\ndef order_using")],
     ['C04'], 'a total order is all the prefix lemma needs (C01/C03/... stay quiet); C04 fires because '
              'SuffixFilter (open finding F7) then drops OTHER qualifying pairs than the pinned estimate'),
]


def make_copy(repo):
    d = tempfile.mkdtemp(prefix='ssj_mut_')
    dst = os.path.join(d, 'repo')
    shutil.copytree(repo, dst, ignore=shutil.ignore_patterns('.git', '__pycache__', '*.pyc',
                                                             'benchmarks', 'docs'))
    return d, dst


def apply(dst, edits):
    for (rel, old, new) in edits:
        p = os.path.join(dst, rel)
        s = open(p).read()
        if s.count(old) < 1:
            raise RuntimeError('pattern not found in %s: %r' % (rel, old[:60]))
        s = s.replace(old, new, 1)
        open(p, 'w').write(s)


def run_check(pid, dst, tier, work):
    env = dict(os.environ)
    env['VERIF_REPO'] = dst
    env['VERIF_WORK'] = work
    env['VERIF_EVIDENCE_DIR'] = os.path.join(work, 'evidence')
    env['VERIF_REPLAY_DIR'] = os.path.join(work, 'replays')
    t0 = time.time()
    p = subprocess.run([os.path.join(VERIF, 'check'), pid, '--tier', tier], cwd=VERIF, env=env,
                       stdout=subprocess.PIPE, stderr=subprocess.STDOUT)
    out = p.stdout.decode('utf8', 'replace')
    first = [l for l in out.split('\n') if l.startswith('  oracle=')][:1]
    return p.returncode, time.time() - t0, first, out


def baseline(dst):
    p = subprocess.run([os.path.join(VERIF, 'tools', 'baseline.sh'), dst], stdout=subprocess.PIPE,
                       stderr=subprocess.STDOUT)
    return p.returncode, p.stdout.decode('utf8', 'replace').strip().split('\n')[0]


def main():
    ap = argparse.ArgumentParser()
    ap.add_argument('--only')
    ap.add_argument('--props')
    ap.add_argument('--tier', default='quick')
    ap.add_argument('--baseline', action='store_true')
    ap.add_argument('--repo', default='/repo')
    ap.add_argument('--all-props', action='store_true',
                    help='run every built check against each mutant (not only the expected ones)')
    args = ap.parse_args()
    from rv.selftest import catalogue
    muts = MUTANTS + catalogue.MUTANTS
    results = []
    built = sorted(f[:-3].upper() for f in os.listdir(os.path.join(VERIF, 'rv', 'checks'))
                   if f.startswith('c') and f.endswith('.py') and f[1:-3].isdigit())
    for (name, edits, expect, note) in muts:
        if args.only and args.only not in name:
            continue
        d, dst = make_copy(args.repo)
        try:
            apply(dst, edits)
        except RuntimeError as e:
            print('%-34s PATCH-FAILED %s' % (name, e))
            shutil.rmtree(d, ignore_errors=True)
            continue
        line = '%-34s' % name
        if args.baseline:
            rc, msg = baseline(dst)
            line += ' baseline=%s' % ('ok' if rc == 0 else 'BROKEN(' + msg + ')')
        props = expect if not args.all_props else built
        if args.props:
            props = args.props.split(',')
        if not expect and not args.props and not args.all_props:
            props = built      # silent mutants: nothing may fire
        fired = []
        for pid in props:
            if pid not in built:
                continue
            rc, wall, first, out = run_check(pid, dst, args.tier, os.path.join(d, 'work'))
            fired.append((pid, rc))
            line += ' %s=%s(%.0fs)' % (pid, {0: 'quiet', 1: 'FIRED', 2: 'inconcl'}.get(rc, rc), wall)
        ok = all(rc == 1 for pid, rc in fired if pid in expect) and \
            all(rc != 1 for pid, rc in fired if pid not in expect) if expect else \
            all(rc == 0 for pid, rc in fired)
        line += '   => %s %s' % ('OK' if ok else 'MISMATCH', note)
        print(line)
        sys.stdout.flush()
        results.append((name, ok))
        shutil.rmtree(d, ignore_errors=True)
    # clean replays written for mutants
    bad = [n for n, ok in results if not ok]
    print('%d mutants, %d as expected, mismatches: %s' % (len(results), len(results) - len(bad), bad))
    return 1 if bad else 0


if __name__ == '__main__':
    sys.exit(main())
