"""Shard entry point (one fresh interpreter per shard):  python -m rv.shard <in.json> <out.json>"""
import faulthandler
import hashlib
import json
import sys
import time
import traceback
from collections import Counter

MAX_KEEP = 12


class Rec(object):
    """Collects what a shard observed."""

    def __init__(self, pid):
        self.pid = pid
        self.evaluations = 0
        self.sigs = set()
        self.violations = []
        self.n_violations = 0
        self.samples = []
        self.counters = Counter()
        self.inconclusive = []
        self.known_counts = Counter()
        self.known_witness = {}
        self.sets = {}
        self.reach = {}

    def case(self, sig=None, nontrivial=True, n=1):
        """Count n executions; `sig` identifies the case for distinct_nontrivial."""
        self.evaluations += n
        if nontrivial and sig is not None:
            self.sigs.add(hashlib.sha1(repr(sig).encode()).hexdigest()[:12])

    def count(self, key, n=1):
        self.counters[key] += n

    def add(self, setname, item):
        self.sets.setdefault(setname, set()).add(item if isinstance(item, str) else repr(item))
        if setname == 'raised':
            # every workload call is a VALID call: one that raises produced no result at all, which no
            # result-property tolerates (on the unchanged tree no workload call raises)
            case = None
            try:
                f = sys._getframe(1)
                for _ in range(4):
                    if 'case' in f.f_locals and isinstance(f.f_locals['case'], dict):
                        case = f.f_locals['case']
                        break
                    f = f.f_back
            except Exception:
                pass
            self.violation('valid_call_raised', 'a valid call of the workload raised instead of '
                           'returning a result: %s' % (item,), case=case)

    def sample(self, obj, limit=3):
        if len(self.samples) < limit:
            self.samples.append(obj)

    def violation(self, oracle, message, case=None, witness=None, known_key=None):
        """A boundary-oracle failure.  known_key (set only by a mechanism classifier) marks it as an
        instance of a listed finding; the runner honours it only if KNOWN_FINDINGS.txt lists it."""
        self.n_violations += 1
        v = {'property': self.pid, 'oracle': oracle, 'message': message, 'case': case,
             'witness': witness, 'known_key': known_key}
        if known_key is not None:
            self.known_counts[known_key] += 1
            self.known_witness.setdefault(known_key, v)
            return
        if len(self.violations) < MAX_KEEP:
            self.violations.append(v)

    def inconclusive_because(self, reason):
        self.inconclusive.append(reason)

    def result(self):
        return {'evaluations': self.evaluations, 'sigs': sorted(self.sigs),
                'violations': self.violations, 'n_violations': self.n_violations,
                'samples': self.samples, 'counters': dict(self.counters),
                'inconclusive': self.inconclusive,
                'known_counts': dict(self.known_counts),
                'known_witness': self.known_witness,
                'sets': dict((k, sorted(v)) for k, v in self.sets.items()),
                'reach': self.reach}


def main():
    fin, fout = sys.argv[1], sys.argv[2]
    with open(fin) as f:
        job = json.load(f)
    faulthandler.enable()
    from rv import env
    env.load()
    import importlib
    mod = importlib.import_module('rv.checks.' + job['property'].lower())
    rec = Rec(job['property'])
    rec.tier = job['tier']
    rec.seed = job['seed']
    t0 = time.time()
    try:
        mod.run_shard(job['shard'], rec)
    except Exception:
        rec.inconclusive_because('shard %s raised in harness: %s'
                                 % (job['shard'].get('name'), traceback.format_exc()[-1500:]))
    rec.counters['shard_wall_ms'] += int(1000 * (time.time() - t0))
    from rv.tables import jsonable, PRESENTATION
    for k, n in PRESENTATION.items():
        rec.counters['presentation_' + k] += n
    with open(fout, 'w') as f:
        json.dump(jsonable(rec.result()), f, allow_nan=True)


if __name__ == '__main__':
    main()
