"""Reference model: what "the right answer" is.  Shares no code with py_stringsimjoin.

Similarities are evaluated "as computed in double precision".  Every (left, right) pair is put in
one of three classes for a given (measure, comp_op, threshold):

  required  - the comparison holds for every legitimate double evaluation AND for its 4-decimal
              rounding (Jaccard / cosine / Dice; overlap, overlap coefficient and edit distance are
              not rounded)                       -> completeness obligations range over these
  forbidden - the comparison holds for no evaluation, raw or rounded
                                                 -> soundness obligations range over these
  allowed   - anything in between (raw and rounded straddle the threshold, cosine ulp ties); may be
              present or absent without alarm.
"""
import math
import operator

OPS = {'>=': operator.ge, '>': operator.gt, '<=': operator.le, '<': operator.lt,
       '=': operator.eq, '!=': operator.ne}

SET_MEASURES = ('JACCARD', 'COSINE', 'DICE', 'OVERLAP_COEFFICIENT', 'OVERLAP')
ROUNDED = ('JACCARD', 'COSINE', 'DICE')

REQUIRED, ALLOWED, FORBIDDEN = 'required', 'allowed', 'forbidden'


def formula_scores(measure, a, b, o):
    """Double-precision evaluations of the defining formula (no shortcut for identical sets)."""
    if measure == 'JACCARD':
        return [float(o) / float(a + b - o)]
    if measure == 'DICE':
        return [2.0 * float(o) / float(a + b), float(2 * o) / float(a + b)]
    if measure == 'COSINE':
        return [float(o) / (math.sqrt(float(a)) * math.sqrt(float(b))),
                float(o) / math.sqrt(float(a * b))]
    if measure == 'OVERLAP_COEFFICIENT':
        return [float(o) / float(min(a, b))]
    if measure == 'OVERLAP':
        return [o]
    raise ValueError(measure)


def raw_scores(measure, a, b, o, identical_shortcut=True):
    """All legitimate double-precision evaluations of the similarity of two token sets of sizes
    a and b sharing o tokens (a, b >= 1).  Identical sets score exactly 1 (which is also what
    py_stringmatching short-circuits to when handed equal token lists); with
    identical_shortcut=False the formula values are legitimate as well (a caller evaluating the
    formula on differently ordered token lists may see 1 -+ 1ulp for cosine)."""
    if a == b == o and measure != 'OVERLAP':
        if identical_shortcut:
            return [1.0]
        return sorted(set([1.0] + formula_scores(measure, a, b, o)))
    return formula_scores(measure, a, b, o)


def score_candidates(measure, a, b, o):
    """Values a correct implementation may report as _sim_score."""
    raws = raw_scores(measure, a, b, o)
    if measure in ROUNDED:
        return sorted(set(round(r, 4) for r in raws))
    return sorted(set(raws))


def classify(measure, op, threshold, a, b, o, identical_shortcut=True):
    """Three-way class of a pair with non-empty... (a,b >= 0, not both 0)."""
    fn = OPS[op]
    if a == 0 or b == 0:
        # exactly one empty side (both-empty is handled by the caller): similarity 0
        vals = [0.0] if measure != 'OVERLAP' else [0]
    else:
        vals = list(raw_scores(measure, a, b, o, identical_shortcut))
        if measure in ROUNDED:
            vals = vals + [round(v, 4) for v in vals]
    hits = [bool(fn(v, threshold)) for v in vals]
    if all(hits):
        return REQUIRED
    if any(hits):
        return ALLOWED
    return FORBIDDEN


def min_required_overlap(measure, threshold, a, b, op='>='):
    """Least overlap o in [1, min(a,b)] that makes the pair `required` (None if none)."""
    lo, hi = 1, min(a, b)
    # classification is monotone in o for >=
    if classify(measure, op, threshold, a, b, hi) != REQUIRED:
        return None
    while lo < hi:
        mid = (lo + hi) // 2
        if classify(measure, op, threshold, a, b, mid) == REQUIRED:
            hi = mid
        else:
            lo = mid + 1
    return lo


def levenshtein(s, t):
    """Plain O(len(s)*len(t)) dynamic programme over code points."""
    if s == t:
        return 0
    n, m = len(s), len(t)
    if n == 0:
        return m
    if m == 0:
        return n
    if n < m:
        s, t, n, m = t, s, m, n
    prev = list(range(m + 1))
    for i in range(1, n + 1):
        cur = [i] + [0] * m
        si = s[i - 1]
        for j in range(1, m + 1):
            c = prev[j - 1] + (si != t[j - 1])
            d = prev[j] + 1
            e = cur[j - 1] + 1
            if d < c:
                c = d
            if e < c:
                c = e
            cur[j] = c
        prev = cur
    return prev[m]


def levenshtein_bounded(s, t, k):
    """Levenshtein distance if <= k else k+1 (banded)."""
    n, m = len(s), len(t)
    if abs(n - m) > k:
        return k + 1
    d = levenshtein(s, t)
    return d if d <= k else k + 1


def bag_overlap(x, y):
    """Multiset intersection size of two token lists."""
    from collections import Counter
    cx, cy = Counter(x), Counter(y)
    return sum(min(c, cy.get(t, 0)) for t, c in cx.items())


def is_missing(v):
    if v is None:
        return True
    try:
        if v != v:  # NaN
            return True
    except Exception:
        pass
    try:
        import pandas as pd
        if v is pd.NA or v is pd.NaT:
            return True
    except Exception:
        pass
    return False


NA = '<NA>'


def canon_cell(v):
    """Canonical, hashable, JSON-able form of a result cell: missing values identified, numbers
    compared by value (2 == 2.0)."""
    if is_missing(v):
        return NA
    if isinstance(v, bool):
        return bool(v)
    try:
        import numpy as np
        if isinstance(v, np.generic):
            v = v.item()
    except Exception:
        pass
    if isinstance(v, bool):
        return v
    if isinstance(v, float):
        if v.is_integer() and abs(v) < 2 ** 53:
            return int(v)
        return v
    if isinstance(v, (int, str)):
        return v
    return repr(v)


def canon_rows(df, drop=('_id',)):
    """List of canonical row tuples of a DataFrame (optionally without some columns)."""
    cols = [c for c in df.columns if c not in drop]
    out = []
    for row in df[cols].itertuples(index=False, name=None):
        out.append(tuple(canon_cell(v) for v in row))
    return out


def multiset(rows):
    from collections import Counter
    return Counter(rows)
