"""Monitors attached from outside to the real code of the tree under test.

* rebind():   replace *every* binding of a function object in every py_stringsimjoin module
              (the repo binds helpers with `from m import f`), counting the rebinds.
* contracts:  icontract pre/post conditions whose condition functions RECORD and return True
              (an anomaly never aborts the observed execution; verdicts come from boundary oracles).
* TracedTokenizer classes: count tokenize() calls and log set_return_set() flips.
* TracedParallel / traced_delayed: the chunk handed to every joblib job, the result length of every
              job, optional per-job delays (so completion order differs from dispatch order).
* Reach:      sys.monitoring LINE events, DISABLEd after the first hit of each location, restricted
              to files of the tree under test -> which anchored lines the workload actually executed.
"""
import hashlib
import importlib
import os
import pkgutil
import random
import re
import sys
import threading
import time
from collections import Counter

from rv import env
from rv import model

_lock = threading.Lock()

REPO_SUBMODULES = [
    'py_stringsimjoin.filter.filter', 'py_stringsimjoin.filter.filter_utils',
    'py_stringsimjoin.filter.overlap_filter', 'py_stringsimjoin.filter.position_filter',
    'py_stringsimjoin.filter.prefix_filter', 'py_stringsimjoin.filter.size_filter',
    'py_stringsimjoin.filter.suffix_filter',
    'py_stringsimjoin.index.inverted_index', 'py_stringsimjoin.index.position_index',
    'py_stringsimjoin.index.prefix_index', 'py_stringsimjoin.index.size_index',
    'py_stringsimjoin.join.set_sim_join', 'py_stringsimjoin.join.jaccard_join_py',
    'py_stringsimjoin.join.cosine_join_py', 'py_stringsimjoin.join.dice_join_py',
    'py_stringsimjoin.join.overlap_join_py', 'py_stringsimjoin.join.overlap_coefficient_join_py',
    'py_stringsimjoin.join.edit_distance_join_py',
    'py_stringsimjoin.matcher.apply_matcher', 'py_stringsimjoin.profiler.profiler',
    'py_stringsimjoin.utils.converter', 'py_stringsimjoin.utils.generic_helper',
    'py_stringsimjoin.utils.missing_value_handler', 'py_stringsimjoin.utils.simfunctions',
    'py_stringsimjoin.utils.token_ordering', 'py_stringsimjoin.utils.validation',
]


def import_repo_modules():
    env.load()
    mods = []
    missing = []
    for name in REPO_SUBMODULES:
        try:
            mods.append(importlib.import_module(name))
        except Exception:  # a refactor may rename modules; monitors attach softly
            missing.append(name)
    return mods, missing


def repo_modules():
    return [m for n, m in list(sys.modules.items())
            if n.startswith('py_stringsimjoin') and m is not None]


def rebind(orig, new):
    """Replace every module-global binding of `orig` in the tree under test; return the count."""
    n = 0
    for m in repo_modules():
        for k, v in list(vars(m).items()):
            if v is orig:
                setattr(m, k, new)
                n += 1
    return n


def find_function(modname, funcname):
    try:
        m = importlib.import_module(modname)
        return getattr(m, funcname)
    except Exception:
        return None


# ----------------------------------------------------------------------------- contracts

class Contracts(object):
    """icontract-based record-don't-raise contracts on internal functions."""

    def __init__(self):
        self.evals = Counter()       # contract evaluations per function
        self.rebinds = {}            # function -> number of bindings replaced
        self.anomalies = []          # dicts (bounded)
        self.n_anomalies = Counter()
        self.unattached = []
        self._orig = []
        self._cache = {}

    # -- model helpers (cached) ----------------------------------------------------------------
    def o_min(self, measure, t, n):
        """least overlap of any `required` pair involving a set of n tokens (subset partner)."""
        t = float(t)            # (numpy scalars / 0-d arrays are not hashable cache keys)
        key = ('omin', measure, t, n)
        if key not in self._cache:
            lo, hi, ans = 1, n, None
            if model.classify(measure, '>=', t, n, n, n) == model.REQUIRED:
                while lo < hi:
                    mid = (lo + hi) // 2
                    if model.classify(measure, '>=', t, n, mid, mid) == model.REQUIRED:
                        hi = mid
                    else:
                        lo = mid + 1
                ans = lo
            self._cache[key] = ans
        return self._cache[key]

    def b_max(self, measure, t, n):
        """largest partner size of any `required` pair involving a set of n tokens (superset)."""
        t = float(t)
        key = ('bmax', measure, t, n)
        if key not in self._cache:
            # (capped: for thresholds next to zero the true maximum is astronomically large or not
            #  representable; a smaller value only makes the contract demand less)
            hi = 10 ** 7 if t * t * 10 ** 7 <= n else int(n / (t * t)) + 3
            lo, hi = n, max(n, hi)
            # classify(n, b, o=n) is monotone decreasing in b
            while lo < hi:
                mid = (lo + hi + 1) // 2
                if model.classify(measure, '>=', t, n, mid, n) == model.REQUIRED:
                    lo = mid
                else:
                    hi = mid - 1
            self._cache[key] = lo
        return self._cache[key]

    def _anomaly(self, fn, **info):
        with _lock:
            self.n_anomalies[fn] += 1
            if len(self.anomalies) < 200:
                info['fn'] = fn
                self.anomalies.append(info)

    # -- attachment ----------------------------------------------------------------------------
    def _attach(self, modname, funcname, decorate):
        orig = find_function(modname, funcname)
        if orig is None:
            self.unattached.append(modname + '.' + funcname)
            return
        try:
            new = decorate(orig)
        except Exception as e:  # signature changed: attach softly
            self.unattached.append('%s.%s (%r)' % (modname, funcname, e))
            return
        n = rebind(orig, new)
        self.rebinds[funcname] = n
        self._orig.append((orig, new))

    def detach(self):
        for orig, new in self._orig:
            rebind(new, orig)
        self._orig = []

    def attach_filter_utils(self, overlap=True):
        import icontract
        C = self
        RATIO = ('JACCARD', 'COSINE', 'DICE')

        class ContractNote(Exception):
            pass

        def post_prefix(num_tokens, sim_measure_type, threshold, result):
            C.evals['get_prefix_length'] += 1
            if sim_measure_type in RATIO and num_tokens >= 1:
                om = C.o_min(sim_measure_type, threshold, num_tokens)
                if om is not None and num_tokens - result + 1 > om:
                    C._anomaly('get_prefix_length', measure=sim_measure_type, t=threshold,
                               n=num_tokens, result=result, needed=num_tokens - om + 1, o=om)
            elif sim_measure_type == 'OVERLAP' and num_tokens >= 1:
                if num_tokens >= threshold and result < num_tokens - threshold + 1:
                    C._anomaly('get_prefix_length', measure=sim_measure_type, t=threshold,
                               n=num_tokens, result=result, needed=num_tokens - threshold + 1)
            return True

        def post_prefix_ed(num_tokens, sim_measure_type, threshold, tokenizer, result):
            if sim_measure_type == 'EDIT_DISTANCE' and num_tokens >= 1:
                need = min(tokenizer.qval * threshold + 1, num_tokens)
                if result < need:
                    C._anomaly('get_prefix_length', measure=sim_measure_type, t=threshold,
                               n=num_tokens, q=tokenizer.qval, result=result, needed=need)
            return True

        def post_lower(num_tokens, sim_measure_type, threshold, result):
            C.evals['get_size_lower_bound'] += 1
            if sim_measure_type in RATIO and num_tokens >= 1:
                om = C.o_min(sim_measure_type, threshold, num_tokens)
                if om is not None and result > om:
                    C._anomaly('get_size_lower_bound', measure=sim_measure_type, t=threshold,
                               n=num_tokens, result=result, partner=om)
            elif sim_measure_type == 'EDIT_DISTANCE' and result > num_tokens - threshold:
                C._anomaly('get_size_lower_bound', measure=sim_measure_type, t=threshold,
                           n=num_tokens, result=result, partner=num_tokens - threshold)
            return True

        def post_upper(num_tokens, sim_measure_type, threshold, result):
            C.evals['get_size_upper_bound'] += 1
            if sim_measure_type in RATIO and num_tokens >= 1:
                if C.o_min(sim_measure_type, threshold, num_tokens) is not None:
                    bm = C.b_max(sim_measure_type, threshold, num_tokens)
                    if result < bm:
                        C._anomaly('get_size_upper_bound', measure=sim_measure_type, t=threshold,
                                   n=num_tokens, result=result, partner=bm)
            elif sim_measure_type == 'EDIT_DISTANCE' and result < num_tokens + threshold:
                C._anomaly('get_size_upper_bound', measure=sim_measure_type, t=threshold,
                           n=num_tokens, result=result, partner=num_tokens + threshold)
            return True

        def post_overlap(l_num_tokens, r_num_tokens, sim_measure_type, threshold, result):
            C.evals['get_overlap_threshold'] += 1
            if sim_measure_type in RATIO and l_num_tokens >= 1 and r_num_tokens >= 1:
                threshold = float(threshold)
                key = ('mo', sim_measure_type, threshold, l_num_tokens, r_num_tokens)
                mo = C._cache.get(key, 0)
                if mo == 0:
                    mo = C._cache[key] = model.min_required_overlap(
                        sim_measure_type, threshold, l_num_tokens, r_num_tokens)
                if mo is not None and result > mo:
                    C._anomaly('get_overlap_threshold', measure=sim_measure_type, t=threshold,
                               a=l_num_tokens, b=r_num_tokens, result=result, o=mo)
            return True

        fu = 'py_stringsimjoin.filter.filter_utils'
        self._attach(fu, 'get_prefix_length', lambda f: icontract.ensure(
            post_prefix_ed, error=ContractNote)(icontract.ensure(post_prefix, error=ContractNote)(f)))
        self._attach(fu, 'get_size_lower_bound',
                     lambda f: icontract.ensure(post_lower, error=ContractNote)(f))
        self._attach(fu, 'get_size_upper_bound',
                     lambda f: icontract.ensure(post_upper, error=ContractNote)(f))
        if overlap:
            self._attach(fu, 'get_overlap_threshold',
                         lambda f: icontract.ensure(post_overlap, error=ContractNote)(f))

    def attach_split_table(self):
        import icontract
        C = self

        class ContractNote(Exception):
            pass

        def post_split(table, num_splits, result):
            C.evals['split_table'] += 1
            lens = [len(s) for s in result]
            ok = (len(result) == num_splits and sum(lens) == len(table))
            if ok:
                # contiguous, in order: compare first-column identity of the concatenation
                try:
                    import numpy as np
                    import pandas as pd
                    if isinstance(table, pd.DataFrame):
                        cat = [v for s in result for v in s.iloc[:, 0].tolist()]
                        ok = cat == table.iloc[:, 0].tolist()
                    else:
                        cat = [tuple(map(repr, r)) for s in result for r in s]
                        ok = cat == [tuple(map(repr, r)) for r in table]
                except Exception:
                    pass
            if not ok:
                C._anomaly('split_table', n=len(table), k=num_splits, lens=lens)
            return True

        self._attach('py_stringsimjoin.utils.generic_helper', 'split_table',
                     lambda f: icontract.ensure(post_split, error=ContractNote)(f))

    def attach_missing(self):
        import icontract
        C = self

        class ContractNote(Exception):
            pass

        def post_missing(ltable, rtable, l_key_attr, r_key_attr, l_join_attr, r_join_attr,
                         out_sim_score, result):
            C.evals['get_pairs_with_missing_value'] += 1
            import pandas as pd
            lm = set(ltable[l_key_attr][pd.isnull(ltable[l_join_attr])])
            rm = set(rtable[r_key_attr][pd.isnull(rtable[r_join_attr])])
            exp = len(lm) * len(rtable) + (len(ltable) - len(lm)) * len(rm)
            pairs = list(zip(result.iloc[:, 0].tolist(), result.iloc[:, 1].tolist()))
            if len(pairs) != exp or len(set(pairs)) != len(pairs):
                C._anomaly('get_pairs_with_missing_value', expected=exp, got=len(pairs))
            if out_sim_score and '_sim_score' not in result.columns:
                C._anomaly('get_pairs_with_missing_value', what='no score column')
            return True

        self._attach('py_stringsimjoin.utils.missing_value_handler', 'get_pairs_with_missing_value',
                     lambda f: icontract.ensure(post_missing, error=ContractNote)(f))

    def summary(self):
        return {'evaluations': dict(self.evals), 'rebinds': dict(self.rebinds),
                'anomalies': dict(self.n_anomalies), 'unattached': list(self.unattached)}


# ----------------------------------------------------------------------------- call counters

class CallCounter(object):
    """Counts calls of named internal functions (mechanism-reached evidence)."""

    def __init__(self):
        self.calls = Counter()
        self._orig = []

    def watch(self, modname, funcname, label=None, on_call=None):
        orig = find_function(modname, funcname)
        if orig is None:
            return 0
        label = label or funcname
        counter = self.calls

        def wrapper(*a, **k):
            counter[label] += 1
            if on_call is not None:
                on_call(a, k)
            return orig(*a, **k)
        wrapper.__name__ = getattr(orig, '__name__', funcname)
        wrapper.__wrapped__ = orig
        n = rebind(orig, wrapper)
        self._orig.append((orig, wrapper))
        return n

    def detach(self):
        for orig, new in self._orig:
            rebind(new, orig)
        self._orig = []


# ----------------------------------------------------------------------------- tokenizer trace

def _traced(base):
    class Traced(base):
        _rv_traced = True

        def _rv_init(self):
            d = self.__dict__
            if '_rv_tokenize' not in d:
                d['_rv_tokenize'] = 0
                d['_rv_flips'] = []

        def tokenize(self, input_string):
            self._rv_init()
            self.__dict__['_rv_tokenize'] += 1
            return base.tokenize(self, input_string)

        def set_return_set(self, return_set):
            self._rv_init()
            self.__dict__['_rv_flips'].append(bool(return_set))
            return base.set_return_set(self, return_set)

    Traced.__name__ = 'Traced' + base.__name__
    Traced.__qualname__ = Traced.__name__
    return Traced


def _build_traced():
    import py_stringmatching as sm
    out = {}
    from rv import tables as _tables
    user = [_tables.user_tokenizer_class(n) for n in ('lower', 'strip', 'qlower', 'memo', 'tuple', 'tolerant')]
    for base in [sm.WhitespaceTokenizer, sm.DelimiterTokenizer, sm.QgramTokenizer,
                 sm.AlphabeticTokenizer, sm.AlphanumericTokenizer] + user:
        cls = _traced(base)
        out[base] = cls
        globals()[cls.__name__] = cls      # importable by name -> picklable for loky workers
    return out


_TRACED = None


def traced_class(base):
    global _TRACED
    if _TRACED is None:
        _TRACED = _build_traced()
    return _TRACED[base]


def __getattr__(name):      # lazy creation when a worker unpickles rv.monitors.TracedXxx
    if name.startswith('Traced'):
        global _TRACED
        if _TRACED is None:
            _TRACED = _build_traced()
        if name in globals():
            return globals()[name]
    raise AttributeError(name)


def trace_instance(tok):
    """Re-class an existing tokenizer instance (e.g. edit_distance_join's shared default)."""
    cls = type(tok)
    if getattr(cls, '_rv_traced', False):
        return tok
    tok.__class__ = traced_class(cls)
    return tok


def tok_counts(tok):
    d = tok.__dict__
    return d.get('_rv_tokenize', 0), list(d.get('_rv_flips', []))


# ----------------------------------------------------------------------------- dispatch trace

class _DelayedCall(object):
    def __init__(self, fn, ms):
        self.fn, self.ms = fn, ms

    def __call__(self, *a, **k):
        time.sleep(self.ms / 1000.0)
        return self.fn(*a, **k)


class DispatchTrace(object):
    """Replaces joblib.Parallel / delayed inside the repo modules with recording versions."""

    def __init__(self, delay_ms=0, rng=None):
        self.events = []
        self.delay_ms = delay_ms
        self.rng = rng or random.Random(0)
        self._patched = []

    def attach(self):
        import joblib
        trace = self
        real_parallel, real_delayed = joblib.Parallel, joblib.delayed

        class TracedParallel(object):
            def __init__(self, n_jobs=None, **kw):
                self.n_jobs, self.kw = n_jobs, kw

            def __call__(self, iterable):
                tasks = list(iterable)
                ev = {'n_jobs': self.n_jobs, 'tasks': len(tasks), 'fn': None, 'chunks': [],
                      'left_lens': [], 'result_lens': [], 'delays': []}
                new_tasks = []
                for (fn, a, k) in tasks:
                    ev['fn'] = getattr(fn, '__name__', repr(fn))
                    ev['chunks'].append(_chunk_ids(ev['fn'], a))
                    ev['left_lens'].append(_left_len(ev['fn'], a))
                    if trace.delay_ms:
                        ms = trace.rng.uniform(0, trace.delay_ms)
                        ev['delays'].append(round(ms, 2))
                        fn = _DelayedCall(fn, ms)
                    new_tasks.append((fn, a, k))
                results = real_parallel(n_jobs=self.n_jobs, **self.kw)(new_tasks)
                ev['result_lens'] = [len(r) for r in results]
                trace.events.append(ev)
                return results

        for m in repo_modules():
            for k, v in list(vars(m).items()):
                if v is real_parallel:
                    setattr(m, k, TracedParallel)
                    self._patched.append((m, k, real_parallel))
        return len(self._patched)

    def detach(self):
        for m, k, v in self._patched:
            setattr(m, k, v)
        self._patched = []


def _chunk_ids(fname, args):
    """Identity of the rows handed to one job: keys of the right-table chunk (column 0 of the
    projected array) or the _id column of a candidate-set chunk."""
    try:
        import pandas as pd
        if isinstance(args[0], pd.DataFrame):
            return [model.canon_cell(v) for v in args[0].iloc[:, 0].tolist()]
        return [model.canon_cell(r[0]) for r in args[1]]
    except Exception:
        return None


def _left_len(fname, args):
    try:
        import pandas as pd
        if isinstance(args[0], pd.DataFrame):
            return len(args[3])
        return len(args[0])
    except Exception:
        return None


# ----------------------------------------------------------------------------- reach

class Reach(object):
    """First-hit line coverage of the tree under test via sys.monitoring (cost: one callback per
    distinct line per run)."""

    def __init__(self):
        self.hits = set()
        self.tool = None
        self.root = os.path.realpath(env.REPO) + os.sep

    def start(self):
        mon = sys.monitoring
        for tid in (mon.COVERAGE_ID, mon.PROFILER_ID, 4, 5):
            try:
                mon.use_tool_id(tid, 'rv-reach')
                self.tool = tid
                break
            except ValueError:
                continue
        if self.tool is None:
            return False
        hits, root = self.hits, self.root
        realcache = {}

        def on_line(code, line):
            fn = code.co_filename
            r = realcache.get(fn)
            if r is None:
                r = realcache[fn] = os.path.realpath(fn)
            if r.startswith(root):
                hits.add((r[len(root):], line))
            return mon.DISABLE

        mon.register_callback(self.tool, mon.events.LINE, on_line)
        mon.set_events(self.tool, mon.events.LINE)
        return True

    def stop(self):
        if self.tool is None:
            return
        mon = sys.monitoring
        mon.set_events(self.tool, 0)
        mon.register_callback(self.tool, mon.events.LINE, None)
        mon.free_tool_id(self.tool)
        self.tool = None

    def anchors(self, specs):
        """specs: {name: (relative file, regex on the source line)} -> {name: hit count}"""
        out = {}
        cache = {}
        for name, (rel, pat) in specs.items():
            path = os.path.join(self.root, rel)
            if path not in cache:
                try:
                    cache[path] = open(path).read().split('\n')
                except OSError:
                    cache[path] = None
            lines = cache[path]
            if lines is None:
                out[name] = -1
                continue
            rx = re.compile(pat)
            nums = [i + 1 for i, l in enumerate(lines) if rx.search(l)]
            if not nums:
                out[name] = -1      # anchor text not found (refactored): not evidence either way
                continue
            out[name] = sum(1 for n in nums if (rel, n) in self.hits)
        return out


# ----------------------------------------------------------------------------- global state

def library_module_state(prefix='py_stringsimjoin'):
    """Module-level variables of the library (not functions / classes / modules): where state that
    survives a call can live besides the arguments.  A change is not a violation by itself (a cache
    may be harmless); it is what makes C12 compare later calls with runs in a fresh process."""
    import types
    out = {}
    for name, mod in list(sys.modules.items()):
        if mod is None or not (name == prefix or name.startswith(prefix + '.')):
            continue
        for k, v in list(vars(mod).items()):
            if k.startswith('__') or isinstance(v, (types.ModuleType, types.FunctionType, type,
                                                    types.BuiltinFunctionType)) or callable(v):
                continue
            try:
                if isinstance(v, (dict, list, set, frozenset, tuple)):
                    r = repr(v)
                    s = '%s[%d]:%s' % (type(v).__name__, len(v), hashlib.sha1(r.encode()).hexdigest()[:10]
                                       if len(r) > 200 else r)
                else:
                    s = repr(v)[:200]
            except Exception:
                s = '<unrepr>'
            out['%s.%s' % (name, k)] = s
    # caches of functools.lru_cache-wrapped functions
    for name, mod in list(sys.modules.items()):
        if mod is None or not (name == prefix or name.startswith(prefix + '.')):
            continue
        for k, v in list(vars(mod).items()):
            ci = getattr(v, 'cache_info', None)
            if ci is not None and callable(ci):
                try:
                    out['%s.%s.cache' % (name, k)] = repr(ci())
                except Exception:
                    pass
    return out


def global_state():
    """Process-wide state a library call must leave alone ("no call affects a later one"):
    every registered pandas option, numpy error/print settings, the random generators, cwd,
    environment variables, recursion limit, decimal context."""
    import decimal
    import hashlib
    import random as _random
    import numpy as np
    import pandas as pd
    out = {}
    try:
        from pandas._config import config as _cfg
        for k in sorted(_cfg._registered_options):
            try:
                out['pd:' + k] = repr(_cfg._get_option(k, silent=True) if hasattr(_cfg, '_get_option')
                                      else pd.get_option(k))
            except Exception:
                pass
    except Exception:
        for k in ('future.infer_string', 'mode.copy_on_write', 'mode.chained_assignment',
                  'display.max_rows', 'mode.use_inf_as_na'):
            try:
                out['pd:' + k] = repr(pd.get_option(k))
            except Exception:
                pass
    out['np.geterr'] = repr(sorted(np.geterr().items()))
    out['np.printoptions'] = repr(sorted((k, repr(v)) for k, v in np.get_printoptions().items()))
    out['random.state'] = hashlib.sha1(repr(_random.getstate()).encode()).hexdigest()[:12]
    out['np.random.state'] = hashlib.sha1(repr(np.random.get_state()).encode()).hexdigest()[:12]
    out['cwd'] = os.getcwd()
    out['environ'] = hashlib.sha1(repr(sorted(os.environ.items())).encode()).hexdigest()[:12]
    out['recursionlimit'] = sys.getrecursionlimit()
    out['decimal.prec'] = decimal.getcontext().prec
    return out
